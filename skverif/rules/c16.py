"""C16 - MVCAPA's affected columns are the optimal sparse subset for each anomaly."""

from __future__ import annotations

import ast

from ..index import FuncInfo
from ..nf import NF, Atom, Undecided, app, atoms_of, lift, nf_equal, single_atom, subst, sym
from ..values import NONE, Cond, ListV, NoneV, Num, ObjV, OpaqueV, SliceV, StrV, TupleV, valkey
from .c03 import MV, SAV, _drv_summary, _fam_summary, _fmt_summary, _reach, discover_driver
from .common import (
    ABSTRACT_SUMMARIES,
    N,
    Pdim,
    _abs_fit,
    abstract_scorer,
    call_method,
    data_sym,
    frame_sym,
    new_executor,
    returns,
    run,
    run_spec,
    symbolic_hyperparams,
)
from .dp import loop_events, main_loop

EXPLANATION = (
    "Static decision for every input, saving (uninterpreted evaluate) and penalty: (a) SUBSET-NF - in the subset-inference helper "
    "reached from MVCAPA._predict the per-anomaly savings are saving.evaluate([start, end])[0] of the anomaly's own interval, "
    "order = argsort(-s), the penalised cumulative sum is cumsum(s[order] - betas) - alpha and the reported columns are "
    "order[: argmax + 1]: the same permutation orders the values and is sliced for the answer, the slice bound is argmax + 1 "
    "(k >= 1 columns, in order of decreasing saving); (b) PENALTY-ROLE - collective anomalies get the SPARSE family's (alpha, betas) "
    "called with (n, p, collective parameters-per-variable, scale=collective_penalty_scale), point anomalies the point penalty's, "
    "each with its own saving object and anomaly list; (c) DENSE-MARK - SubsetCollectiveAnomalyDetector.sparse_to_dense allocates "
    "zeros((len(index), len(columns))), writes labels[start:end, columns] = i + 1 for anomaly i and returns a frame on the given "
    "index; (d) the formatter converts each component list elementwise (order kept). NOT decided: tie behaviour of argsort; that "
    "the interval handed over is the one the DP selected (C03)."
)
# obligations added during the build phase (seeding rounds, twins, mutation analysis)
ADDED_IN_BUILD = " Also: the point family is the CONFIGURED point penalty (scenario with point_penalty='dense'); the sparse family computes alpha = 2 scale log n and beta = 2 scale log(k p) (C15.a sparse|alpha, sparse|betas re-run); FORMAT is decided on the formatter's paths (C04.a icolumns re-run), not on the spelling of the conversion. DENSE-MARK: the column index of the label store is the anomaly's icolumns entry itself (a slice first .. first + k is a violation unless a test over all entries guards it); the frame is built from the label matrix. FORMAT keeps the interval-order obligation of the subset formatter. The open / closed adjustment of the interval ends is decided by cases over the four values of `closed`: every value a path's tests admit must get exactly its own adjustment."
EXPLANATION = EXPLANATION + ADDED_IN_BUILD

ASSUMPTIONS = [
    "Python's ast module and evaluation-order/argument-binding semantics as implemented in skverif/symex.py",
    "library model table skverif/models.py (argsort returns a permutation, cumsum, argmax, slicing)",
    "specification /verif/spec/subset.py",
    "user savings are uninterpreted functions of (object, fitted data, cuts)",
]


def check(ctx):
    cls = ctx.P.public_class("skchange.anomaly_detectors", "MVCAPA")
    pred = ctx.P.lookup_method(cls, "_predict")
    fac = [f for f in _reach(ctx, pred).values() if f.cls is None and any("anomal" in q for q in f.params) and any("saving" in q for q in f.params) and any("alpha" in q or "penalt" in q for q in f.params)]
    if len(fac) != 1:
        ctx.undecided("C16.a SUBSET-NF", "helper", pred.loc(), f"expected one subset-inference helper (saving, anomalies, alpha, betas), found {[f.name for f in fac]}")
        return
    helper = fac[0]
    ctx.guard("C16.a SUBSET-NF", helper.qualname, lambda: check_helper(ctx, helper), helper.loc())
    ctx.guard("C16.b PENALTY-ROLE", "MVCAPA", lambda: check_roles(ctx, cls, pred, helper), pred.loc())
    ctx.guard("C16.c DENSE-MARK", "sparse_to_dense", lambda: check_dense(ctx), cls.module.relpath)
    ctx.guard("C16.d FORMAT", "formatter", lambda: check_formatter(ctx), cls.module.relpath)
    ctx.guard("C16.b PENALTY-ROLE", "sparse-formula", lambda: shared_sparse_formula(ctx), cls.module.relpath)
    ctx.expect_min("C16", len([o for o in ctx.obs if o.status == "HOLDS"]), 12)


def shared_sparse_formula(ctx):
    """The subset is optimal 'under the sparse penalty for k components': alpha = 2 scale log n plus beta = 2 scale
    log(k p) per component.  PENALTY-ROLE decides that the sparse FAMILY is called with the right scale; that the family
    computes that formula is C15.a NF-FORMULA (sparse|alpha, sparse|betas), re-run here under the C16 id."""
    from . import c15

    before = len(ctx.obs)
    c15.check_families(ctx)
    kept = []
    for o in ctx.obs[before:]:
        if ("NF-FORMULA" in o.rule and o.key.startswith("sparse|")) or o.status == "UNDECIDED":
            o.rule = f"C16.b PENALTY-ROLE ({o.rule})"
            kept.append(o)
    ctx.obs[before:] = kept


def check_helper(ctx, helper: FuncInfo):
    rule = "C16.a SUBSET-NF"
    ex = new_executor(ctx, ABSTRACT_SUMMARIES)
    alpha, betas = sym("alpha"), sym("betas")
    st = {}

    def thunk(ex):
        X = data_sym(ex)
        sv = abstract_scorer(ex, ctx.P, SAV, "saving")
        _abs_fit(ex, sv, [X], {}, None)
        ex.list_counter += 1
        an = ListV([], opaque=True, lid=ex.list_counter, elem=TupleV([Num(sym("a_start"), (), "int"), Num(sym("a_end"), (), "int")]))
        b = Num(betas, (Pdim,), "float", meta={"foreign": True})
        ex.atom_shapes[Atom("sym", "betas").key] = (Pdim,)
        args = {}
        for p in helper.params:
            if "saving" in p:
                args[p] = sv
            elif "anomal" in p:
                args[p] = an
            elif "alpha" in p:
                args[p] = Num(alpha, (), "float")
            elif "beta" in p:
                args[p] = b
            else:
                raise Undecided(f"helper parameter {p} has no recognised role")
        st["an"] = an
        return ex.call_function(helper, [], args, None, None)

    paths = run(ctx, ex, thunk)
    rets = returns(paths)
    for q in paths:
        if q.outcome == "raise":
            ctx.violation(rule, helper.qualname + "|raises", helper.loc(), "the helper raises on a path with valid symbolic arguments", found=q.exc.exc_name)
    if not rets:
        ctx.undecided(rule, helper.qualname, helper.loc(), f"no returning path ({len(paths)} paths)")
        return
    for k, p in enumerate(rets):
        _subset_path(ctx, ex, helper, st, p, "" if len(rets) == 1 else f"#{k}", alpha, betas)


def _subset_path(ctx, ex, helper, st, p, sfx, alpha, betas):
    rule = "C16.a SUBSET-NF"
    loops = main_loop(p, helper.qualname)
    if len(loops) != 1:
        ctx.undecided(rule, helper.qualname, helper.loc(), f"{len(loops)} loops")
        return
    lp = loops[0]
    ctx.check(lp.info.get("over") is not None and getattr(lp.info["over"], "lid", None) == st["an"].lid if isinstance(lp.info.get("over"), ListV) else False, rule, "loop" + sfx, helper.loc(lp.node), "one pass over the anomalies handed in", nontrivial=False)
    evs = loop_events(p, lp, "scorer_evaluate")
    if len(evs) == 0 and loop_events(p, lp, "list_append"):
        ctx.violation(rule, "components" + sfx, loop_events(p, lp, "list_append")[0].loc(), "on this path the affected components are recorded without evaluating the saving on the anomaly's interval: they cannot be the columns with the largest savings in decreasing order", found=repr(loop_events(p, lp, "list_append")[0].data["value"])[:160], expected="order[: argmax(cumsum(s[order] - betas) - alpha) + 1] with order = argsort(-s)")
        return
    if len(evs) != 1:
        ctx.undecided(rule, "evaluate" + sfx, helper.loc(), f"{len(evs)} saving evaluations per anomaly")
        return
    e = evs[0]
    a_s, a_e = sym("a_start"), sym("a_end")
    cuts = e.data["cuts"]
    okc = isinstance(cuts, Num) and nf_equal(cuts.nf, app("vec", (a_s, a_e)))
    ctx.check(okc and e.data["fitted_on"] == "[X]/[1]", rule, "interval" + sfx, e.loc(), "savings are evaluated on the anomaly's own interval [start, end) of the fitted data", found=repr(cuts), expected="[a_start, a_end]")
    s_row = app("idx", NF.atom(single_atom(e.data["result"].nf)), (("at", NF.const(0)),))
    want, _ = run_spec(ctx, "subset", "affected_components", lambda sx: [Num(s_row, (Pdim,), "float"), Num(alpha, (), "float"), Num(betas, (Pdim,), "float")])
    apps = loop_events(p, lp, "list_append")
    if len(apps) != 1 or not isinstance(apps[0].data["value"], TupleV) or len(apps[0].data["value"].items) != 3:
        ctx.violation(rule, "record" + sfx, helper.loc(), "each anomaly is not recorded as (start, end, components)", found=repr(apps[0].data["value"]) if apps else "no append")
        return
    x, y, comp = apps[0].data["value"].items
    ctx.check(isinstance(x, Num) and isinstance(y, Num) and nf_equal(x.nf, a_s) and nf_equal(y.nf, a_e), rule, "record|interval" + sfx, apps[0].loc(), "the interval is passed through unchanged", found=f"({x!r}, {y!r})")
    ctx.check(isinstance(comp, Num) and comp.nf is not None and nf_equal(comp.nf, want.nf), rule, "components" + sfx, apps[0].loc(), "components == order[: argmax(cumsum(s[order] - betas) - alpha) + 1] with order = argsort(-s)", found=repr(comp), expected=repr(want.nf))
    ctx.check(p.value is apps[0].data["lst"], rule, "result" + sfx, helper.loc(), "the list of (start, end, components) is returned", nontrivial=False)


def check_roles(ctx, cls, pred, helper):
    rule = "C16.b PENALTY-ROLE"

    def _fac_summary(ex, func, args, kwargs, so, node):
        names = func.params
        b = {}
        for i, a in enumerate(args):
            b[names[i]] = a
        b.update(kwargs)
        ex.emit("components_call", node, bound=b)
        src = [v for v in b.values() if isinstance(v, ListV)]
        ex.list_counter += 1
        r = ListV([], opaque=True, lid=ex.list_counter)
        r.role = getattr(src[0], "role", None) if src else None
        return r

    drv = None
    for f in _reach(ctx, pred).values():
        if f.cls is None and f.qualname.endswith("run_base_capa"):
            drv = f
    if drv is None:
        # fall back to the discovery used by C03
        from .c03 import _has_dp_loop

        dps = [f for f in _reach(ctx, pred).values() if f.cls is None and _has_dp_loop(f)]
        drv = dps[0] if len(dps) == 1 else None
    if drv is None:
        ctx.undecided(rule, "driver", pred.loc(), "dynamic-programming driver not found")
        return
    summ = dict(ABSTRACT_SUMMARIES)
    summ[drv.qualname] = _drv_summary
    summ[helper.qualname] = _fac_summary
    for fam in ("dense_mvcapa_penalty", "sparse_mvcapa_penalty", "intermediate_mvcapa_penalty", "combined_mvcapa_penalty"):
        if f"{MV}.{fam}" in ctx.P.functions:
            summ[f"{MV}.{fam}"] = _fam_summary
    for c in ctx.P.classes.values():
        if "_format_sparse_output" in c.methods:
            summ[c.methods["_format_sparse_output"].qualname] = _fmt_summary
    ex = new_executor(ctx, summ, max_paths=200)

    def thunk(ex):
        ov = {
            "collective_saving": lambda ex: abstract_scorer(ex, ctx.P, SAV, "collective_saving"),
            "point_saving": lambda ex: abstract_scorer(ex, ctx.P, SAV, "point_saving", min_size=NF.const(1)),
        }
        # a point penalty other than the default: "the point penalty for point anomalies" is then distinguishable from
        # the sparse family that collective anomalies always use
        if "point_penalty" in [a.arg for a in ctx.P.lookup_method(cls, "__init__").node.args.args]:
            ov["point_penalty"] = lambda ex: StrV("dense")
        kw = symbolic_hyperparams(ex, ctx.P, cls, ov)
        obj = ex.new_object(cls, [], kw)
        obj.fields["_is_fitted"] = Num(None, (), "bool", cond=Cond.const(True))
        return call_method(ex, obj, "predict", frame_sym(ex))

    paths = run(ctx, ex, thunk)
    good = returns(paths)
    if not good:
        ctx.undecided(rule, "predict", pred.loc(), "predict never returns")
        return
    p = good[0]
    comp = [e for e in p.events if e.kind == "components_call"]
    fams = [e for e in p.events if e.kind == "family_call"]
    if len(comp) != 2:
        ctx.violation(rule, "calls", pred.loc(), f"subset inference is run {len(comp)} times (expected once for collective and once for point anomalies)")
        return
    n, pp = lift(N), lift(Pdim)
    for e in comp:
        from .common import flatten_records

        b = flatten_records(e.data["bound"])
        vals = list(b.values())
        lst = [v for v in vals if isinstance(v, ListV)]
        role = getattr(lst[0], "role", None) if lst else None
        sv = [v for v in vals if isinstance(v, ObjV)]
        al = [v for k, v in b.items() if "alpha" in k]
        be = [v for k, v in b.items() if "beta" in k]
        if role not in ("collective", "point") or not sv or not al or not be:
            ctx.undecided(rule, "arguments", e.loc(), "the arguments of the subset inference cannot be matched with (saving, anomalies, alpha, betas) by kind and name", found={k: valkey(v)[:50] for k, v in b.items()})
            continue
        ctx.check(sv[0].key == f"{role}_saving", rule, f"{role}|saving", e.loc(), f"{role} anomalies are scored with the {role} saving", found=sv[0].key)
        ka = single_atom(al[0].nf) if isinstance(al[0], Num) and al[0].nf is not None else None
        kb = single_atom(be[0].nf) if isinstance(be[0], Num) and be[0].nf is not None else None
        fam_key = ka.args[1] if ka is not None and ka.kind == "app" and ka.args[0] == "fam_alpha" else None
        okpair = fam_key is not None and kb is not None and kb.kind == "app" and kb.args[0] == "fam_betas" and kb.args[1] == fam_key
        ctx.check(okpair, rule, f"{role}|pair", e.loc(), "alpha and betas come from the same penalty-family call", found=f"{al[0]!r} / {be[0]!r}")
        if not okpair:
            continue
        # the family call that produced them
        src = None
        for fe in fams:
            bb = fe.data["bound"]
            key = fe.data["family"] + "(" + ",".join(f"{k}={valkey(v)}" for k, v in sorted(bb.items())) + ")"
            if key == fam_key:
                src = fe
        if src is None:
            ctx.undecided(rule, f"{role}|family", e.loc(), "cannot trace the penalties to a family call")
            continue
        bb = src.data["bound"]
        try:
            kparam = [v for kx, v in bb.items() if "param" in kx][0]
            scale_name = "collective_penalty_scale" if role == "collective" else "point_penalty_scale"
            okargs = nf_equal(bb["n"].nf, n) and nf_equal(bb["p"].nf, pp) and nf_equal(kparam.nf, app("param_size", f"{role}_saving", NF.const(1))) and nf_equal(bb["scale"].nf, sym(scale_name))
        except Exception:  # noqa: BLE001
            okargs = False
        want_fam = "sparse_mvcapa_penalty" if role == "collective" else "dense_mvcapa_penalty"
        ctx.check(src.data["family"] == want_fam, rule, f"{role}|family", src.loc(), "the subset of a collective anomaly is inferred with the sparse penalty family" if role == "collective" else "the subset of a point anomaly is inferred with the CONFIGURED point penalty (here point_penalty='dense'), the one the dynamic programme charged", found=src.data["family"], expected=want_fam)
        ctx.check(okargs, rule, f"{role}|family-arguments", src.loc(), f"that family is called with (n, p, {role} parameters per variable, scale={role}_penalty_scale)", found={k: valkey(v)[:50] for k, v in bb.items()})
    roles = sorted(str(getattr([v for v in e.data["bound"].values() if isinstance(v, ListV)][0], "role", None)) for e in comp if [v for v in e.data["bound"].values() if isinstance(v, ListV)])
    ctx.check(roles == ["collective", "point"], rule, "both-kinds", pred.loc(), "both the collective and the point anomalies get their affected columns", found=roles)


def check_dense(ctx):
    rule = "C16.c DENSE-MARK"
    cls = ctx.P.cls("skchange.anomaly_detectors.base.SubsetCollectiveAnomalyDetector")
    f = cls.methods.get("sparse_to_dense")
    if f is None:
        ctx.undecided(rule, "sparse_to_dense", cls.module.relpath, "method not found")
        return
    ex = new_executor(ctx, max_paths=50)

    def thunk(ex):
        ys = OpaqueV("y_sparse", {"kind": "frame"})
        index = Num(sym("index"), (N,), None, "index", meta={"kind": "LABEL"})
        cols = Num(sym("columns"), (Pdim,), None, "index", meta={"kind": "LABEL"})
        ex.atom_shapes[Atom("sym", "index").key] = (N,)
        ex.atom_shapes[Atom("sym", "columns").key] = (Pdim,)
        return ex.call_function(f, [ys, index, cols], {}, None, None)

    paths = run(ctx, ex, thunk)
    rets = returns(paths)
    if not rets:
        ctx.violation(rule, "sparse_to_dense", f.loc(), "never returns", found=[p.exc.exc_name for p in paths if p.exc])
        return
    first = True
    for p in rets:
        arrs = [e.data["arr"] for e in p.events if e.kind == "alloc" and e.data["arr"].init[0] == "zeros"]
        if len(arrs) != 1:
            ctx.undecided(rule, "labels", f.loc(), f"{len(arrs)} zero allocations")
            return
        a = arrs[0]
        if first:
            oka = a.shape is not None and len(a.shape) == 2 and nf_equal(lift(a.shape[0]), lift(N)) and nf_equal(lift(a.shape[1]), lift(Pdim)) and a.dtype == "int"
            ctx.check(oka, rule, "alloc", f.loc(a.node), "labels = zeros((len(index), len(columns))) of integer type: 0 wherever nothing is marked", found=f"shape {a.shape} dtype {a.dtype}")
        if len(a.stores) != 1 or not a.stores[0].loops:
            ctx.violation(rule, "store", f.loc(), f"{len(a.stores)} stores into the label matrix (expected one per anomaly in a loop)")
            return
        s = a.stores[0]
        idx, val = s.data["index"], s.data["value"]
        lp = s.loops[-1]
        lv = NF.atom(Atom("lv", lp.lid))
        closed_facts = [(c, v) for c, v in p.facts]
        ok_i = len(idx) == 2 and isinstance(idx[0], SliceV)
        if not ok_i:
            ctx.violation(rule, "store|index", s.loc(), "the store is not labels[start:end, columns]", found=[valkey(i) for i in idx])
            continue
        if isinstance(idx[1], SliceV) and "icolumns" in valkey(idx[1]):
            # columns written as a range first .. first + k: equal to the anomaly's icolumns only when these are k consecutive
            # positions - something a test of single entries (icolumns[0], icolumns[-1], len) cannot establish, since the
            # affected columns are not reported in increasing order (MVCAPA lists them by decreasing saving)
            fk = " ".join(c.key for c, v in p.facts)
            whole = any(w in fk for w in ("diff(", "sort", "minall", "maxall", "unique", "all(", "any(", "argsort"))
            found = f"labels[.., {valkey(idx[1])[:90]}] under {[c.key[:70] for c, v in p.facts if 'icolumns' in c.key][:2]}"
            if whole:
                ctx.undecided(rule, "store|columns", s.loc(), "the columns of an anomaly are marked through a slice guarded by a test over all of its icolumns: whether that test implies k consecutive positions is not decided", found=found)
            else:
                ctx.violation(rule, "store|columns", s.loc(), "the columns of an anomaly are marked through a slice first .. first + k although nothing on the path establishes that its icolumns are k consecutive positions (they are reported in no particular order): other columns than the affected ones get the label", found=found, expected="labels[start:end, icolumns]")
            first = False
            continue
        lo_k, hi_k, col_k = valkey(idx[0].lo), valkey(idx[0].hi), valkey(idx[1])
        # the anomaly's icolumns entry itself: nothing is applied to it afterwards (no subscript, slice or call selects a part)
        tail = col_k[col_k.rindex("icolumns") + len("icolumns"):] if "icolumns" in col_k else "("
        import re as _re

        # only closing characters may follow (quotes, brackets of the key's own rendering, `/[1]` of a normal form); an
        # np.asarray / np.array around the entry is the same entry
        whole_entry = bool(_re.fullmatch(r"['\"\]\)]*(/\[1\])?", tail)) and not _re.search(r"(idx|slice|colslice|rowslice|take|compress)\(", col_k)
        ok = ".left" in lo_k and ".right" in hi_k and whole_entry and ".right" not in lo_k and ".left" not in hi_k
        # open/closed adjustment: +1 on the start iff the interval is open on the left,
        # +1 on the end iff it is closed on the right (decided per path from the branch facts)
        # decided by cases on the four values of `closed`: every value that the path's tests of `closed` admit must get
        # exactly its own adjustment (start + 1 iff open on the left, end + 1 iff closed on the right), however the tests
        # are spelled (membership in a list, disjunction of equalities, one inequality)
        from .common import flatten as _flatten

        tests, unread = [], False
        for c, v in p.facts:
            parts_ = _flatten(c, "or") if c.t[0] == "or" else [c]
            if not any("closed" in q.key for q in parts_):
                continue
            if not all(q.t[0] in ("opq", "not") and "closed" in q.key for q in parts_):
                unread = True
                continue
            words = set()
            for q in parts_:
                ws = {w for w in ("left", "right", "both", "neither") if f"'{w}'" in q.key or f'"{w}"' in q.key or f"({w}" in q.key or f",{w}" in q.key or f" {w}" in q.key or w in q.key.replace("closed", "")}
                if (q.t[0] == "not") != ("cmp!=" in q.key):
                    ws = {"left", "right", "both", "neither"} - ws  # `closed != "left"`: every other value
                words |= ws
            if not words:
                unread = True
                continue
            tests.append((words, v))
        admitted = [w for w in ("left", "right", "both", "neither") if all((w in ws) == v for ws, v in tests)]
        got_lo = lo_k.count("Add(")
        got_hi = hi_k.count("Add(")
        by_one = lo_k.count(",[1]/[1])") + lo_k.count("([1]/[1],") == got_lo and hi_k.count(",[1]/[1])") + hi_k.count("([1]/[1],") == got_hi
        start_open = end_closed = None
        if unread or not tests or not admitted:
            if ok:
                ctx.undecided(rule, "store|index", s.loc(), "the adjustment of the interval ends for open / closed sides is decided by a test that is not recognised", found=f"[{lo_k[:70]} : {hi_k[:70]}] under {[(sorted(ws), v) for ws, v in tests]}")
                first = False
                continue
        else:
            wrong = [w for w in admitted if (got_lo, got_hi) != ((1 if w in ("right", "neither") else 0), (1 if w in ("right", "both") else 0))]
            start_open, end_closed = got_lo == 1, got_hi == 1
            if wrong and ok:
                w = wrong[0]
                ctx.violation(rule, "store|index", s.loc(), f"intervals with closed='{w}' take this path and get start + {got_lo}, end + {got_hi}: " + ("the first row of a left-closed side is lost" if got_lo and w in ("left", "both") else "the first position of a left-open side is included" if not got_lo and w in ("right", "neither") else "the row at the right end of a right-open side is included" if got_hi and w in ("left", "neither") else "the last row of a right-closed side is lost"), found=f"[{lo_k[:70]} : {hi_k[:70]}] for closed in {admitted}", expected="start + 1 iff open on the left, end + 1 iff closed on the right")
                first = False
                continue
            ok = ok and by_one
        if first or not ok:
            ctx.check(ok, rule, "store|index", s.loc(), "rows come from the anomaly's own interval (left .. right) and columns from its own icolumns", found=f"[{lo_k[:70]} : {hi_k[:70]}, {col_k[:60]}] with start_open={start_open} end_closed={end_closed}", expected="labels[left(+1 iff open on the left) : right(+1 iff closed on the right), icolumns]")
        okv = isinstance(val, Num) and nf_equal(val.nf, lv + 1) and not s.data.get("aug")
        if first or not okv:
            ctx.check(okv, rule, "store|label", s.loc(), "anomaly number i (0-based position in the sparse output) is marked with label i + 1", found=repr(val), expected="i + 1")
        first = False
        # returned frame on the given index
        ctor = [e for e in p.events if e.kind == "pandas_ctor" and e.data["which"] == "frame"]
        oki = bool(ctor) and isinstance(ctor[-1].data.get("index"), Num) and nf_equal(ctor[-1].data["index"].nf, sym("index")) and isinstance(ctor[-1].data["data"], Num) and ctor[-1].data["data"].arr is a
        if not oki:
            from ..values import DictV

            d = ctor[-1].data["data"] if ctor else None
            comp = getattr(d, "comp", None) if isinstance(d, DictV) else None
            if comp is not None and "columns" in valkey(comp["key"]):
                ctx.violation(rule, "frame", ctor[-1].loc(), "the dense frame is built from a dict keyed by (a text made from) the input's column labels: columns whose labels are equal, or print alike, collapse into one, so the output no longer has one label column per input column", found=f"pd.DataFrame({{{valkey(comp['key'])[:60]}: ...}})", expected="pd.DataFrame(labels, index=index, columns=[...]) - one column per position")
                return
            if ctor and isinstance(ctor[-1].data.get("index"), Num) and nf_equal(ctor[-1].data["index"].nf, sym("index")) and not isinstance(d, Num):
                ctx.undecided(rule, "frame", ctor[-1].loc(), "the dense frame is not built from the label matrix itself: whether it has one column per input column, in order, is not decided", found=valkey(d)[:100])
                return
            ctx.violation(rule, "frame", f.loc(), "the label matrix is not returned as a frame on the given index", found=[valkey(e.data.get("index")) for e in ctor])
            return
    ctx.holds(rule, "frame", f.loc(), f"on all {len(rets)} paths the label matrix is returned as a DataFrame carrying the given index")


def check_formatter(ctx):
    """icolumns[i] is np.array(components of anomaly i): the same elements in the same order, one array per anomaly.
    Decided on the paths of the formatter by the abstract interpreter (the C04.a FORMATTER obligations of the subset
    formatter, re-run under the C16 id) - not by the spelling of the conversion (comprehension, loop, map)."""
    rule = "C16.d FORMAT"
    from . import c04

    cls = ctx.P.cls("skchange.anomaly_detectors.base.SubsetCollectiveAnomalyDetector")
    before = len(ctx.obs)
    c04.check_formatter(ctx, cls)
    kept = []
    for o in ctx.obs[before:]:
        # icolumns[i] belongs to interval i: both columns of the output list the anomalies in the order they came in
        if "FORMATTER" in o.rule and ("icolumns" in o.key or "intervals" in o.key or o.status == "UNDECIDED"):
            o.rule = f"{rule} ({o.rule})"
            kept.append(o)
    ctx.obs[before:] = kept
    if not kept:
        ctx.undecided(rule, "components-elementwise", cls.module.relpath, "the subset formatter's icolumns obligation was not produced")
