"""C12 - detections respect the model's symmetries: permutation, shift, scale, reversal."""

from __future__ import annotations

import ast
from fractions import Fraction

from ..index import FuncInfo
from ..nf import NF, Atom, Undecided, app, atoms_of, evalnf, lift, nf_equal, nf_log, single_atom, subst, sym
from ..values import NONE, Cond, ListV, NoneV, Num, ObjV, OpaqueV, SliceV, StrV, TupleV, valkey
from .c02 import find_driver_call
from .common import (
    mark_index,
    ABSTRACT_SUMMARIES,
    K,
    N,
    Pdim,
    _abs_fit,
    abstract_scorer,
    call_method,
    cut_cols,
    cuts_sym,
    data_sym,
    declare_cut_order,
    new_executor,
    returns,
    run,
)

EXPLANATION = (
    "Static decision on the normal forms extracted from the code (not from the specifications): (a) SYMMETRIC-AGG - in every driver "
    "reached from the detectors the (k,p) matrix returned by a scorer's evaluate is only ever consumed by a permutation-invariant "
    "reduction over the column axis (np.sum(., axis=1)), or handed whole to MVCAPA's penalising helper (whose sort-then-cumsum / "
    "column-sum forms are decided under C03.b); no column is picked by position; (b) NF-INVARIANCE - substituting the effect of "
    "X -> X + c on the prefix-sum atoms (S1 -> S1 + cN, S2 -> S2 + 2cS1 + c^2 N) leaves the extracted NFs of the optimal-parameter "
    "L2 and Gaussian-variance costs and of CUSUM unchanged; substituting X -> aX maps the Gaussian optimal cost to itself + 2N log a "
    "(variance floor inactive), which cancels in C(s,e)-C(s,k)-C(k,e) and in the local anomaly score because the lengths add up; "
    "(c) NF-REVERSAL - under the cut mirror (s,k,e) -> (n-e,n-k,n-s) on reversed data (prefix sums P'(i) = P(n) - P(n-i)) the CUSUM "
    "and cost NFs map to themselves, and the moving window is symmetric (K-L == R-K == b). NOT decided: equality of discrete "
    "detector outputs on transformed data (a consequence for margins above rounding), argsort ties, the multivariate Gaussian cost "
    "(invariance of logdet(cov) is a paper lemma over library atoms)."
)
# obligations added during the build phase (seeding rounds, twins, mutation analysis)
ADDED_IN_BUILD = " Also: LOG-SPACE - on no path of GaussianCovCost's fit + evaluate is the determinant of a data-derived matrix materialised (np.linalg.det scales as a^(2p) and leaves the float64 range for wide data; slogdet / Cholesky / eigenvalue sums stay in log space); ADDITIVE-COST - segment costs enter PELT's recurrence additively (C02.a first block and C02.b candidates re-run), which is what lets the scale term N p log a^2 cancel."
EXPLANATION = EXPLANATION + ADDED_IN_BUILD

ASSUMPTIONS = [
    "Python's ast module and evaluation-order/argument-binding semantics as implemented in skverif/symex.py",
    "library model table skverif/models.py",
    "prefix-sum builder correctness (rule C01.b PREFIX-BUILDER): prefix0(X)[i] is the column sum of the first i rows",
    "the 1e-16 variance floor is inactive for the scale clause (the property's moderate-size proviso)",
]

BASES = {
    "cost": "skchange.costs.base.BaseCost",
    "change_score": "skchange.change_scores.base.BaseChangeScore",
    "saving": "skchange.anomaly_scores.base.BaseSaving",
    "score": None,
}


def check_adapters_columnwise(ctx):
    """per-column scorer outputs permute with the columns: the cost-based adapters combine the
    (k,p) outputs of their cost elementwise and never pick a column by position"""
    rule = "C12.a COLUMNWISE-ADAPTER"
    from .c06 import _adapter

    for modattr, width, param in ((("skchange.change_scores", "ChangeScore"), 3, "none"), (("skchange.anomaly_scores", "Saving"), 2, "fixed"), (("skchange.anomaly_scores", "LocalAnomalyScore"), 4, "none")):

        def go(modattr=modattr, width=width, param=param):
            cls, ex, paths, st = _adapter(ctx, modattr, width, param)
            bad = {}
            n = 0
            for p in paths:
                for e in p.events[mark_index(p, "fit-done"):]:
                    for key in ("value", "result"):
                        v = e.data.get(key)
                        if not (isinstance(v, Num) and v.nf is not None):
                            continue
                        for a in atoms_of(v.nf).values():
                            if a.kind == "app" and a.args[0] == "idx" and isinstance(a.args[1], NF):
                                inner = single_atom(a.args[1])
                                if inner is not None and inner.kind == "app" and inner.args[0] == "eval":
                                    n += 1
                                    parts = a.args[2]
                                    if len(parts) >= 2 and parts[1] != "full":
                                        bad.setdefault(e.loc(), (e, a))
                            if a.kind == "app" and a.args[0] in ("col", "colslice") and isinstance(a.args[1], NF):
                                inner = single_atom(a.args[1])
                                if inner is not None and inner.kind == "app" and inner.args[0] == "eval":
                                    bad.setdefault(e.loc(), (e, a))
            for l, (e, a) in bad.items():
                ctx.violation(rule, f"{modattr[1]}|column-pick", l, "a column of the cost's per-column output is selected by position: per-column scores no longer permute with the data columns", found=repr(a)[:200], expected="whole rows of the (k,p) cost output")
            if not bad:
                ctx.holds(rule, modattr[1], cls.module.relpath, "the adapter combines whole rows of its cost's per-column output (no column picked by position)")

        ctx.guard(rule, modattr[1], go)


def check(ctx):
    check_agg(ctx)
    check_adapters_columnwise(ctx)
    ctx.guard("C12.a SYMMETRIC-AGG", "affected-components", lambda: shared_subset(ctx))
    ctx.guard("C12.b NF-INVARIANCE", "costs", lambda: check_invariance(ctx))
    ctx.guard("C12.c NF-REVERSAL", "scores", lambda: check_reversal(ctx))
    ctx.guard("C12.b LOG-SPACE", "GaussianCovCost", lambda: check_log_space(ctx))
    ctx.guard("C12.b ADDITIVE-COST", "PELT", lambda: shared_additive(ctx))
    ctx.expect_min("C12.a SYMMETRIC-AGG", sum(1 for o in ctx.obs if o.rule == "C12.a SYMMETRIC-AGG" and o.status == "HOLDS"), 5)
    ctx.expect_min("C12.b NF-INVARIANCE", sum(1 for o in ctx.obs if o.rule == "C12.b NF-INVARIANCE"), 5)


# ------------------------------------------------------------- SYMMETRIC-AGG


def shared_subset(ctx):
    """MVCAPA's affected columns are chosen by sorting the per-column savings and charging beta_j to the j-th LARGEST
    saving (C16.a SUBSET-NF): a rule in which column identity enters only through the savings, hence equivariant under
    column permutations.  Charging beta_j to COLUMN j instead breaks the equivariance.  C16.a re-run under the C12 id."""
    from . import c16

    before = len(ctx.obs)
    mins = dict(ctx.mins)
    try:
        c16.check(ctx)
    except Undecided as u:
        ctx.undecided("C12.a SYMMETRIC-AGG", "affected-components", "", str(u))
    ctx.mins = mins
    kept = []
    for o in ctx.obs[before:]:
        if o.status == "UNDECIDED" and o.key == "instance-count":
            continue
        if "SUBSET-NF" in o.rule or o.status == "UNDECIDED":
            o.rule = f"C12.a SYMMETRIC-AGG ({o.rule})"
            kept.append(o)
    ctx.obs[before:] = kept


DETECTORS = [
    ("skchange.change_detectors", "PELT", "_predict"),
    ("skchange.change_detectors", "SeededBinarySegmentation", "_predict"),
    ("skchange.change_detectors", "MovingWindow", "_transform_scores"),
    ("skchange.anomaly_detectors", "CircularBinarySegmentation", "_predict"),
    ("skchange.anomaly_detectors", "CAPA", "_predict"),
    ("skchange.anomaly_detectors", "MVCAPA", "_predict"),
]


def _scorer_base(ctx, drv: FuncInfo, p):
    """base class of a scorer parameter from its annotation"""
    for a in drv.node.args.args:
        if a.arg == p and a.annotation is not None:
            r = ctx.P.resolve_expr(drv.module, a.annotation) if isinstance(a.annotation, (ast.Name, ast.Attribute)) else None
            if r is not None and hasattr(r, "qualname"):
                return r.qualname
    return None


def generic_driver_run(ctx, drv: FuncInfo, summaries=None, max_paths=400):
    ex = new_executor(ctx, dict(ABSTRACT_SUMMARIES, **(summaries or {})), max_paths=max_paths)

    def thunk(ex):
        X = data_sym(ex)
        args = {}
        for p in drv.params:
            base = _scorer_base(ctx, drv, p)
            if p == "X":
                args[p] = X
            elif base is not None and "skchange" in base:
                width = {"BaseCost": 2, "BaseSaving": 2, "BaseChangeScore": 3, "BaseLocalAnomalyScore": 4}.get(base.split(".")[-1], 2)
                o = abstract_scorer(ex, ctx.P, base, p, width=width)
                if "run_base" in drv.name or "base" in drv.name:
                    _abs_fit(ex, o, [X], {}, None)
                args[p] = o
            elif "betas" in p:
                v = Num(sym(p), (Pdim,), "float", meta={"foreign": True})
                ex.atom_shapes[Atom("sym", p).key] = (Pdim,)
                args[p] = v
            elif any(w in p for w in ("length", "bandwidth", "min_", "max_")):
                args[p] = Num(sym(p), (), "int")
            else:
                d = None
                args[p] = Num(sym(p), (), "float")
        return ex.call_function(drv, [], args, None, None)

    paths = run(ctx, ex, thunk)
    return ex, paths


ELEMENTWISE = {"max", "min", "abs", "P", "log"}


def _eval_uses(x, out, chain=()):
    """collect (eval atom, chain of enclosing atoms from the outside in) occurrences"""
    if isinstance(x, NF):
        for p in (x.num, x.den):
            for m in p:
                for a, _ in m:
                    _eval_uses(a, out, chain)
    elif isinstance(x, Atom):
        if x.kind == "app" and x.args[0] == "eval":
            out.append((x, chain))
            return
        if x.kind == "P":
            from ..nf import poly_of_P

            _eval_uses(NF(poly_of_P(x)), out, chain + (x,))
            return
        for a in x.args:
            _eval_uses(a, out, chain + (x,))
    elif isinstance(x, (tuple, list)):
        for y in x:
            _eval_uses(y, out, chain)


def _leaves(x):
    """atoms of a normal form, looking through elementwise wrappers but not into the
    arguments of other applications (positions, cuts, ...)"""
    out = []
    if isinstance(x, NF):
        for p in (x.num, x.den):
            for m in p:
                for a, _ in m:
                    out.extend(_leaves(a))
    elif isinstance(x, Atom):
        if x.kind == "P":
            from ..nf import poly_of_P

            out.extend(_leaves(NF(poly_of_P(x))))
        elif x.kind in ("max", "min", "abs"):
            for y in x.args:
                out.extend(_leaves(lift(y)))
        elif x.kind == "log":
            out.extend(_leaves(x.args[0]))
        else:
            out.append(x)
    return out


def _symmetric_use(ex, ev_atom, chain):
    """(ok, site) - the eval output reaches a column-symmetric reduction through column-wise
    elementwise operations only, with no other column-dependent operand"""
    from ..models import atom_varies

    # innermost enclosing reduction
    for k in range(len(chain) - 1, -1, -1):
        a = chain[k]
        if a.kind == "app" and a.args[0] in ("sum", "pen"):
            if a.args[0] == "sum" and not (len(a.args) >= 3 and a.args[2] == 1):
                return False, None
            between = chain[k + 1:]
            if any(not (b.kind in ELEMENTWISE) for b in between):
                return False, None
            inner = a.args[1]
            if not isinstance(inner, NF):
                return False, None
            shp = ex.atom_shapes.get(ev_atom.key)
            for other in _leaves(inner):
                if other.kind == "app" and other.args[0] == "eval":
                    continue
                if other.kind in ("Q", "logq"):
                    continue
                if shp is not None and len(shp) == 2 and atom_varies(ex, other, shp, 1):
                    return False, None
            return True, (a.args[0], ev_atom.args[1])
    return False, None


def _values_of(path):
    """every value the path computed that could carry a scorer output"""
    for e in path.events:
        for k in ("value", "result", "over"):
            v = e.data.get(k)
            if isinstance(v, Num) and v.nf is not None:
                yield e, v.nf
            if isinstance(v, Num) and v.cond is not None:
                yield e, v.cond
        c = e.data.get("cond")
        if isinstance(c, Cond):
            yield e, c
        idx = e.data.get("index")
        if isinstance(idx, list):
            for i in idx:
                if isinstance(i, Num) and i.cond is not None:
                    yield e, i.cond


def _cond_nfs(c):
    t = c.t
    if t[0] == "cmp":
        yield t[2]
    elif t[0] in ("and", "or"):
        yield from _cond_nfs(t[1])
        yield from _cond_nfs(t[2])
    elif t[0] in ("not", "all", "any"):
        yield from _cond_nfs(t[1])


def check_agg(ctx):
    rule = "C12.a SYMMETRIC-AGG"
    seen_drv = {}
    for pkg, name, meth in DETECTORS:
        cls = ctx.P.public_class(pkg, name)
        m = ctx.P.lookup_method(cls, meth)
        cands = find_driver_call(ctx, m)
        if len(cands) != 1:
            ctx.undecided(rule, name, m.loc(), f"expected one driver call in {name}.{meth}, found {len(cands)}")
            continue
        call, drv = cands[0]
        # CAPA/MVCAPA call a thin wrapper: follow to the function that actually evaluates
        target = _evaluating_function(ctx, drv)
        if target is None:
            ctx.undecided(rule, name, drv.loc(), "no function on the call path evaluates the scorer")
            continue
        if target.qualname in seen_drv:
            ctx.holds(rule, f"{name}|shares:{target.name}", target.loc(), f"{name} aggregates through {target.name} (analysed once)", nontrivial=False)
            continue
        seen_drv[target.qualname] = name

        def go(target=target, name=name):
            pen = None
            summ = {}
            from .c03 import _pen_summary, discover_penaliser

            if "capa" in target.qualname.lower():
                for f in ctx.P.functions.values():
                    if __import__("skverif.rules.c03", fromlist=["is_penaliser"]).is_penaliser(f) and f.module is target.module:
                        summ[f.qualname] = _pen_summary
            ex, paths = generic_driver_run(ctx, target, summ)
            rets = returns(paths)
            if not rets:
                ctx.undecided(rule, target.name, target.loc(), "driver never returns in the generic scenario", found=[p.exc.exc_name for p in paths if p.exc][:3])
                return
            n_sites = 0
            bad = {}
            good_sites = set()
            for p in rets:
                for e, x in _values_of(p):
                    nfs = list(_cond_nfs(x)) if isinstance(x, Cond) else [x]
                    for nf in nfs:
                        uses = []
                        _eval_uses(nf, uses)
                        for ev_atom, chain in uses:
                            if not chain and e.kind == "scorer_evaluate":
                                continue  # the evaluate call itself
                            ok, site = _symmetric_use(ex, ev_atom, chain)
                            if ok:
                                good_sites.add(site)
                            else:
                                bad.setdefault((e.loc(), repr(chain[-1])[:160] if chain else "used directly"), e)
            for (loc, how), e in list(bad.items())[:4]:
                ctx.violation(rule, f"{target.name}|use", loc, "a scorer's per-column output is consumed by something other than a column sum (axis=1): the result can depend on the order or the selection of columns", found=how, expected="sum(eval(...), axis=1)")
            if not bad:
                ctx.check(bool(good_sites), rule, f"{target.name}", target.loc(), f"every use of a scorer output is np.sum(., axis=1) or the penalising helper ({sorted(good_sites)})", found=f"{len(good_sites)} aggregation sites")

        ctx.guard(rule, target.name, go, target.loc())


def _evaluating_function(ctx, drv: FuncInfo, depth=3):
    # the function on the driver's call path that evaluates the scorer (structural: a call of `.evaluate` on one of its
    # parameters; how it builds the cuts - loop, column_stack, a helper - does not matter)
    params = set(drv.params)
    has_eval = any(isinstance(n, ast.Call) and isinstance(n.func, ast.Attribute) and n.func.attr == "evaluate" and isinstance(n.func.value, ast.Name) and n.func.value.id in params for n in ast.walk(drv.node))
    if has_eval:
        return drv
    if depth == 0:
        return None
    for n in ast.walk(drv.node):
        if isinstance(n, ast.Call) and isinstance(n.func, (ast.Name, ast.Attribute)):
            r = ctx.P.resolve_expr(drv.module, n.func)
            if isinstance(r, FuncInfo) and r.cls is None and r is not drv:
                t = _evaluating_function(ctx, r, depth - 1)
                if t is not None:
                    return t
    return None


# ------------------------------------------------------------- NF extraction


def kernel_nf(ctx, pkg, clsname, width, ctor_args=None):
    cls = ctx.P.public_class(pkg, clsname)
    ex = new_executor(ctx)

    def thunk(ex):
        X = data_sym(ex)
        cuts = cuts_sym(ex, width)
        obj = ex.new_object(cls, ctor_args(ex) if ctor_args else [], {})
        call_method(ex, obj, "fit", X)
        return call_method(ex, obj, "evaluate", cuts)

    paths = run(ctx, ex, thunk)
    rets = returns(paths)
    if not rets:
        raise Undecided(f"{clsname}: no returning path")
    out = []
    for k, r in enumerate(rets):
        nf = ex.cur_nf(r.value)
        _only_prefix_sums(nf, clsname)
        if not any(nf_equal(nf, o) for _, o in out):
            out.append((f"#{k}" if len(rets) > 1 else "", nf))
    return out, cls


def _only_prefix_sums(nf, clsname):
    """The substitution arguments below transform the data by rewriting its prefix sums; they say nothing about a value
    that reads the data in any other way (a slice mean, a direct sum, ...): such a kernel is not decided here."""

    def walk(x, under_prefix):
        if isinstance(x, NF):
            for pnum in (x.num, x.den):
                for m in pnum:
                    for a, _ in m:
                        walk(a, under_prefix)
        elif isinstance(x, Atom):
            if x.kind == "sym" and x.args[0] == "X" and not under_prefix:
                raise Undecided(f"{clsname}: the kernel value reads the data other than through its prefix sums (not decidable by the prefix-sum substitution)")
            if x.kind == "P":
                from ..nf import poly_of_P

                walk(NF(poly_of_P(x)), under_prefix)
                return
            up = under_prefix or (x.kind == "app" and x.args and x.args[0] in ("prefix0", "prefix"))
            for y in x.args:
                walk(y, up)
        elif isinstance(x, (tuple, list)):
            for y in x:
                walk(y, under_prefix)

    walk(nf, False)


def _each(ctx, specs):
    """(class name, path tag, value NF, class) for every distinct returning value of every listed kernel"""
    for pkg, clsname, width in specs:
        nfs, cls = kernel_nf(ctx, pkg, clsname, width)
        for tag, nf in nfs:
            yield clsname, tag, nf, cls


def PS(k):
    X = sym("X")
    return app("prefix0", X if k == 1 else X * X)


def at(ps, col):
    return app("idx", ps, (("gather", col),))


def shift_map(cols, c):
    """X -> X + c: prefix sums at every cut column"""
    mp = {}
    for col in cols:
        p1, p2 = at(PS(1), col), at(PS(2), col)
        mp[single_atom(p1).key] = p1 + c * col
        mp[single_atom(p2).key] = p2 + 2 * c * p1 + c * c * col
    return mp


def scale_map(cols, a):
    mp = {}
    for col in cols:
        p1, p2 = at(PS(1), col), at(PS(2), col)
        mp[single_atom(p1).key] = a * p1
        mp[single_atom(p2).key] = a * a * p2
    return mp


def drop_floor(nf):
    """variance floor inactive: max(v, eps) -> v"""

    def f(a):
        if a.kind == "max":
            args = [x for x in a.args if lift(x).as_const() is None]
            consts = [x for x in a.args if lift(x).as_const() is not None]
            if len(args) == 1 and consts and all(0 < lift(c).as_const() <= Fraction(1, 10**6) for c in consts):
                return evalnf(lift(args[0]), f)
        return None

    return evalnf(nf, f)


def check_invariance(ctx):
    rule = "C12.b NF-INVARIANCE"
    c, a = sym("c"), sym("a")
    cols2 = declare_cut_order(2)
    s, e = cols2
    for clsname, tag, nf, cls in _each(ctx, [("skchange.costs", "L2Cost", 2), ("skchange.costs", "GaussianVarCost", 2)]):
        loc = cls.module.relpath
        sh = subst(nf, shift_map(cols2, c))
        ctx.check(nf_equal(sh, nf), rule, f"{clsname}|shift{tag}", loc, "optimal-parameter cost is unchanged by adding a constant to a column", found=repr(sh - nf) if not nf_equal(sh, nf) else "difference 0", expected="0")
        if clsname == "GaussianVarCost":
            base = drop_floor(nf)
            sc = drop_floor(subst(base, scale_map(cols2, a)))
            want = (e - s) * 2 * nf_log(a)
            ctx.check(nf_equal(sc - base, want), rule, f"{clsname}|scale{tag}", loc, "scaling a column by a > 0 adds exactly N log a^2 to the Gaussian cost (which cancels in change and local anomaly scores)", found=repr(sc - base), expected=repr(want))
            # the cancellation in the change score and the local anomaly score: lengths add up
            s3 = declare_cut_order(3)
            d3 = ((s3[2] - s3[0]) - (s3[1] - s3[0]) - (s3[2] - s3[1])) * 2 * nf_log(a)
            ctx.check(d3.is_zero(), rule, "ChangeScore(Gaussian)|scale", "skchange/change_scores/from_cost.py", "N(s,e) - N(s,k) - N(k,e) == 0: the scale term cancels in C(s,e) - C(s,k) - C(k,e)", found=repr(d3))
            s4 = declare_cut_order(4)
            d4 = ((s4[3] - s4[0]) - (s4[2] - s4[1]) - ((s4[1] - s4[0]) + (s4[3] - s4[2]))) * 2 * nf_log(a)
            ctx.check(d4.is_zero(), rule, "LocalAnomalyScore(Gaussian)|scale", "skchange/anomaly_scores/from_cost.py", "N(s,e) - N(a,b) - N(surroundings) == 0: the scale term cancels in the local anomaly score", found=repr(d4))
        else:
            sc = subst(nf, scale_map(cols2, a))
            ctx.check(nf_equal(sc, a * a * nf), rule, f"{clsname}|scale{tag}", loc, "the squared-error cost is homogeneous of degree 2 under scaling (argmin sets unchanged)", found=repr(sc), expected=repr(a * a * nf), nontrivial=True)
    cols3 = declare_cut_order(3)
    for clsname, tag, nf, cls in _each(ctx, [("skchange.change_scores", "CUSUM", 3)]):
        sh = subst(nf, shift_map(cols3, c))
        ctx.check(nf_equal(sh, nf), rule, f"CUSUM|shift{tag}", cls.module.relpath, "CUSUM is unchanged by adding a constant to a column (the two weights times the two lengths cancel)", found=repr(sh), expected=repr(nf))
    # adapters inherit invariance from their cost: they are differences of cost evaluations (rule C06.a)
    for clsname, tag, nf, cls in _each(ctx, [("skchange.anomaly_scores", "L2Saving", 2)]):
        sc = subst(nf, scale_map(cols2, a))
        ctx.check(nf_equal(sc, a * a * nf), rule, f"L2Saving|scale{tag}", cls.module.relpath, "the L2 saving is homogeneous of degree 2 under scaling", found=repr(sc), nontrivial=True)


def shared_additive(ctx):
    """Scaling the data by a > 0 adds N(s, e) * p * log a^2 to every Gaussian segment cost.  PELT's segmentation is
    unchanged by that only because segment costs enter its recurrence ADDITIVELY (the terms of any full partition sum to
    n * p * log a^2, the same for all partitions): a clipped, squared or otherwise transformed aggregate lets the scale
    term change the argmin.  The additive form of the first block and of the candidate vector are obligations of C02 and
    are re-run here."""
    from . import c02

    before = len(ctx.obs)
    mins = dict(ctx.mins)
    try:
        c02.check(ctx)
    except Undecided as u:
        ctx.undecided("C12.b ADDITIVE-COST", "PELT", "", str(u))
    ctx.mins = mins
    kept = []
    for o in ctx.obs[before:]:
        if o.status == "UNDECIDED" and o.key == "instance-count":
            continue
        if ("BELLMAN" in o.rule and "candidates" in o.key) or ("DP-COVER" in o.rule and "first-block" in o.key) or o.status == "UNDECIDED":
            o.rule = f"C12.b ADDITIVE-COST ({o.rule})"
            kept.append(o)
    ctx.obs[before:] = kept


def check_log_space(ctx):
    """The Gaussian covariance cost depends on the data scale only through log det(cov) = log det(cov/a^2) + 2p log a.
    That identity survives floating point only if the determinant is never formed as a number: det(cov) scales as
    a^(2p) and leaves the float64 range for a few dozen columns under an ordinary change of units, after which the cost
    is inf / nan (or a spurious 'not positive definite' error) for one of X, aX and finite for the other.  Rule: on no
    path of fit + evaluate is the determinant of a data-derived matrix materialised (np.linalg.det); the log-determinant
    comes from slogdet / a Cholesky diagonal / eigenvalues, all of which stay in log space."""
    rule = "C12.b LOG-SPACE"
    from ..nf import atoms_of

    cls = ctx.P.public_class("skchange.costs", "GaussianCovCost")
    n_paths = 0
    n_logdet = 0
    bad = {}
    for mode in ("optim", "fixed"):
        ex = new_executor(ctx)

        def thunk(ex, mode=mode):
            X = data_sym(ex)
            cuts = cuts_sym(ex, 2)
            args = []
            if mode == "fixed":
                mean = Num(sym("mean0"), (Pdim,), "float")
                cov = Num(sym("cov0"), (Pdim, Pdim), "float")
                args = [TupleV([mean, cov])]
            obj = ex.new_object(cls, args, {})
            call_method(ex, obj, "fit", X)
            return call_method(ex, obj, "evaluate", cuts)

        paths = run(ctx, ex, thunk)
        for p in paths:
            n_paths += 1
            for e in p.events:
                if e.kind == "det_materialised":
                    op = e.data["operand"]
                    names = {a.args[0] for a in atoms_of(op.nf, deep=True).values() if a.kind == "sym"} if op.nf is not None else {"?"}
                    if "X" in names or "?" in names:
                        bad.setdefault(e.loc(), (mode, e))
            if p.outcome == "return":
                vals = [ex.cur_nf(p.value)] if isinstance(p.value, Num) and p.value.nf is not None else []
                arr = getattr(p.value, "arr", None)
                for st in getattr(arr, "stores", []) or []:
                    sv = st.data.get("value")
                    if isinstance(sv, Num) and sv.nf is not None:
                        vals.append(sv.nf)
                n_logdet += any(a.kind == "app" and a.args[0] == "logabsdet" for v in vals for a in atoms_of(v, deep=True).values())
    for loc, (mode, e) in bad.items():
        ctx.violation(rule, f"GaussianCovCost|{mode}|det", loc, "the determinant of a data-derived matrix is materialised as a float: it scales as a^(2p) with the data and overflows / underflows float64 for wide data, so the cost of aX is inf / nan / an error where that of X is finite", found="np.linalg.det(<data-derived matrix>)", expected="np.linalg.slogdet / sum(log(diag(cholesky))) / sum(log(eigvalsh))")
    if not bad:
        if n_logdet == 0:
            ctx.undecided(rule, "GaussianCovCost", cls.module.relpath, "no returning path of the covariance cost contains a log-determinant term: the scenario does not reach the kernel")
        else:
            ctx.holds(rule, "GaussianCovCost", cls.module.relpath, f"no determinant is materialised on any of {n_paths} paths of fit + evaluate (optimal and fixed parameters); {n_logdet} returning paths carry log|det| from a log-space routine")


def check_reversal(ctx):
    rule = "C12.c NF-REVERSAL"
    n = lift(N)

    def mirror_map(cols):
        mp = {}
        k = len(cols)
        for j, col in enumerate(cols):
            mir = cols[k - 1 - j]
            mp[single_atom(col).key] = n - mir
            for q in (1, 2):
                ps = PS(q)
                mp[single_atom(at(ps, col)).key] = app("idx", ps, (("at", n),)) - at(ps, mir)
        return mp

    cols3 = declare_cut_order(3)
    for clsname, tag, nf, cls in _each(ctx, [("skchange.change_scores", "CUSUM", 3)]):
        mr = subst(nf, mirror_map(cols3))
        ctx.check(nf_equal(mr, nf), rule, f"CUSUM{tag}", cls.module.relpath, "CUSUM of the mirrored cut (n-e, n-k, n-s) on the time-reversed data equals CUSUM of (s, k, e)", found=repr(mr), expected=repr(nf))
    cols2 = declare_cut_order(2)
    for clsname, tag, nf, cls in _each(ctx, [("skchange.costs", "L2Cost", 2), ("skchange.costs", "GaussianVarCost", 2)]):
        mr = subst(nf, mirror_map(cols2))
        ctx.check(nf_equal(mr, nf), rule, clsname + tag, cls.module.relpath, "the cost of the mirrored interval on the reversed data equals the cost of the interval", found=repr(mr)[:300], expected=repr(nf)[:300])
    for clsname, tag, nf, cls in _each(ctx, [("skchange.anomaly_scores", "L2Saving", 2)]):
        mr = subst(nf, mirror_map(cols2))
        ctx.check(nf_equal(mr, nf), rule, f"L2Saving{tag}", cls.module.relpath, "the saving of the mirrored interval on the reversed data equals the saving of the interval", found=repr(mr)[:300])
    # symmetric moving window
    from . import c08

    mw = ctx.P.public_class("skchange.change_detectors", "MovingWindow")
    ts = ctx.P.lookup_method(mw, "_transform_scores")
    cands = find_driver_call(ctx, ts)
    if len(cands) == 1:
        from .c02 import call_roles

        before = len(ctx.obs)
        c08.check_transform(ctx, cands[0][1], call_roles(cands[0][0], cands[0][1]))
        for o in ctx.obs[before:]:
            o.rule = "C12.c WINDOW-SYM (" + o.rule + ")"
    else:
        ctx.undecided(rule, "moving-window", ts.loc(), "moving-window transform not found")
