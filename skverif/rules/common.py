"""Shared scenario builders and helpers for the rules."""

from __future__ import annotations

import ast
import os

from ..index import ClassInfo, FuncInfo, Program
from ..nf import NF, Atom, Undecided, app, atoms_of, declare_positive, lift, nf_equal, single_atom, sym
from ..report import VERIF, Ctx
from ..symex import Event, Executor, Path
from ..values import NONE, Cond, ListV, Num, ObjV, OpaqueV, StrV, TupleV, valkey

N, Pdim, K = sym("n"), sym("p"), sym("k")

COL_CUMSUM = "skchange.utils.numba.stats.col_cumsum"


def spec_module(P: Program, name):
    mod = f"spec.{name}"
    if mod not in P.modules:
        P.add_file(mod, os.path.join(VERIF, "spec", name + ".py"))
    return P.modules[mod]


def data_sym(ex, name="X", shape=None, dtype="float"):
    shape = shape if shape is not None else (N, Pdim)
    v = Num(sym(name), shape, dtype, "ndarray", meta={"foreign": True, "role": name})
    ex.atom_shapes[Atom("sym", name).key] = shape
    return v


def cuts_sym(ex, width, name="cuts"):
    shape = (K, NF.const(width))
    v = Num(sym(name), shape, "int", "ndarray", meta={"foreign": True, "role": "cuts"})
    ex.atom_shapes[Atom("sym", name).key] = shape
    return v


def cut_cols(width, name="cuts"):
    return [app("col", sym(name), NF.const(j)) for j in range(width)]


def declare_cut_order(width, name="cuts"):
    cols = cut_cols(width, name)
    for i in range(width):
        for j in range(i + 1, width):
            declare_positive(cols[j] - cols[i])
    return cols


def prefix_summary(ex, func, args, kwargs, so, node):
    """col_cumsum(x, init_zero=True) == PREFIX0(x): row 0 is zero, row i is the sum of the
    first i rows of x (established by rule PREFIX-BUILDER on the function body)."""
    x = args[0]
    iz = kwargs.get("init_zero", args[1] if len(args) > 1 else None)
    if not isinstance(x, Num) or x.shape is None or len(x.shape) != 2:
        raise Undecided("col_cumsum of a value that is not a 2-D array", node)
    n, p = x.shape
    zero = iz is not None and isinstance(iz, Num) and iz.cond is not None and iz.cond.is_const() and iz.cond.value()
    nonzero = iz is None or (isinstance(iz, Num) and iz.cond is not None and iz.cond.is_const() and not iz.cond.value())
    ex.emit("prefix_build", node, x=x, init_zero=zero)
    if zero:
        return ex.mk("prefix0", ex.as_nf(x, node), shape=(lift(n) + 1, p), dtype="float")
    if nonzero:
        return ex.mk("prefix", ex.as_nf(x, node), shape=(n, p), dtype="float")
    raise Undecided("col_cumsum with a non-constant init_zero", node)


def new_executor(ctx: Ctx, summaries=None, **kw):
    s = {COL_CUMSUM: prefix_summary}
    s.update(summaries or {})
    return Executor(ctx.P, summaries=s, **kw)


def run(ctx: Ctx, ex: Executor, thunk):
    paths = ex.run_paths(thunk)
    ctx.see_executor(ex, paths)
    return paths


def call_method(ex, obj, name, *args, **kwargs):
    return ex.call(ex.getattr(obj, name, None), list(args), dict(kwargs), None)


def fact_value(path: Path, cond: Cond):
    for c, v in path.facts:
        if c.key == cond.key:
            return v
        if c.key == cond.neg().key:
            return not v
    return None


def returns(paths):
    return [p for p in paths if p.outcome == "return"]


def raises(paths, name=None):
    return [p for p in paths if p.outcome == "raise" and (name is None or p.exc.exc_name == name)]


def events(path: Path, kind, func_suffix=None):
    out = []
    for e in path.events:
        if e.kind != kind:
            continue
        if func_suffix is not None and (e.func is None or not e.func.qualname.endswith(func_suffix)):
            continue
        out.append(e)
    return out


def loc_of(func: FuncInfo, node=None):
    return func.loc(node)


def has_opaque(nf: NF):
    """names of unmodelled applications inside a normal form"""
    bad = []
    for a in atoms_of(nf).values():
        if a.kind == "app" and a.args[0] in ("asarray", "opq"):
            bad.append(a.args[0])
    return bad


def norm_src(node) -> str:
    """Normalised statement text (keys findings by construct, never by line)."""
    return " ".join(ast.unparse(node).split())


def run_spec(ctx: Ctx, specname, fname, args, summaries=None):
    """Evaluate a specification function (spec/<specname>.py) on symbolic arguments with
    the same engine; returns the single return value."""
    m = spec_module(ctx.P, specname)
    f = m.functions.get(fname)
    if f is None:
        raise Undecided(f"specification {specname}.{fname} missing")
    ex = new_executor(ctx, summaries)
    holder = {}

    def thunk(ex):
        a = args(ex) if callable(args) else args
        return ex.call_function(f, list(a), {}, None, None)

    paths = ex.run_paths(thunk)
    rets = returns(paths)
    if len(rets) != 1 or len(paths) != 1:
        raise Undecided(f"specification {specname}.{fname} is not straight-line ({len(paths)} paths)")
    return rets[0].value, ex


# ---------------------------------------------------------- condition helpers


def flatten(cond: Cond, op):
    if cond.t[0] == op:
        return flatten(cond.t[1], op) + flatten(cond.t[2], op)
    return [cond]


def same_set(cond: Cond, op, parts):
    """cond == op(parts...) up to order/duplication"""
    a = {c.key for c in flatten(cond, op)}
    b = {c.key for c in parts}
    return a == b


def both_polarities(facts, _propagate=True):
    """every decided fact in both spellings: (c, v) and (not c, not v) - `if not all(x > 0)` and `if any(x <= 0)` are the
    same guard, whichever way the source writes it"""
    facts = list(facts)
    if _propagate:
        # unit propagation: a true disjunction all of whose other disjuncts are false on this path makes the remaining
        # one true (`if A or B: if A: ... else: <B holds here>`); dually for a false conjunction
        known = {}
        for c, v in both_polarities(facts, _propagate=False):
            known.setdefault(c.key, v)
        extra = []
        for c, v in facts:
            for c2, v2 in ((c, v), (c.neg(), not v)):
                if (c2.t[0] == "or" and v2 is True) or (c2.t[0] == "and" and v2 is False):
                    parts = flatten(c2, c2.t[0])
                    unknown = [q for q in parts if q.key not in known]
                    others = [q for q in parts if q.key in known]
                    if len(unknown) == 1 and all(known[q.key] is (not v2) for q in others):
                        extra.append((unknown[0], v2))
        facts = facts + extra
    for c, v in facts:
        yield c, v
        n = c.neg()
        if n.key != c.key:
            yield n, (not v)
        # what a decided compound settles about its parts: a false disjunction makes every disjunct false, a true
        # conjunction every conjunct true (`if not A or B: raise` passed means A and not B)
        for c2, v2 in ((c, v), (n, not v)):
            if (c2.t[0] == "or" and v2 is False) or (c2.t[0] == "and" and v2 is True):
                yield from both_polarities([(part, v2) for part in flatten(c2, c2.t[0])], _propagate=False)


def fired(path: Path, pred):
    """facts (cond, value) of the path with pred(cond) true (either spelling)"""
    return [(c, v) for c, v in both_polarities(path.facts) if pred(c)]


def guard_outcomes(paths, pred, want_true=True):
    """paths on which a guard matching pred evaluated to want_true (the guard may be spelled negated in the source)"""
    out = []
    for p in paths:
        for c, v in both_polarities(p.facts):
            if pred(c) and v == want_true:
                out.append(p)
                break
    return out


def is_cmp(c: Cond, ops, nf):
    return c.t[0] == "cmp" and c.t[1] in ops and nf_equal(c.t[2], lift(nf))


def raise_loc(p: Path, default=""):
    if p.outcome == "raise" and p.exc.func is not None:
        return p.exc.func.loc(p.exc.node)
    return default


# ------------------------------------------------------------ abstract scorers


def abstract_scorer(ex, P, base_qualname, key, width=2, min_size=None, param="fixed", evaluation_type="univariate", ncols=None):
    """An arbitrary (user-defined) scorer of the given base class: its `evaluate` is an
    uninterpreted function of (object, data it was last fitted on, cuts)."""
    cls = P.cls(base_qualname)
    o = ObjV(cls, key, {}, abstract=True, role=key)
    o.fields["min_size"] = Num(min_size if min_size is not None else sym(f"min_size({key})"), (), "int")
    o.fields["evaluation_type"] = StrV(evaluation_type)
    o.fields["expected_cut_entries"] = Num(NF.const(width), (), "int")
    if param == "fixed":
        o.fields["param"] = Num(sym(f"param({key})"), (), "float")
    elif param == "none":
        o.fields["param"] = NONE
    o.meta["fitted_on"] = "UNFITTED"
    o.meta["ncols"] = ncols
    return o


def _abs_fit(ex, obj, args, kwargs, node):
    data = args[0] if args else kwargs.get("X")
    obj.meta["fitted_on"] = valkey(data)
    obj.meta["fitted_val"] = data
    obj.fields["_is_fitted"] = Num(None, (), "bool", cond=Cond.const(True))
    obj.fields["_X"] = data
    ex.emit("scorer_fit", node, obj=obj, data=data)
    return obj


def _abs_evaluate(ex, obj, args, kwargs, node):
    cuts = args[0] if args else kwargs.get("cuts")
    if isinstance(cuts, (ListV, TupleV)):
        cuts = ex.models._np_array(ex, [cuts], {}, node)
        if cuts.shape is not None and len(cuts.shape) == 1:
            cuts = Num(cuts.nf, (NF.const(1),) + tuple(cuts.shape), cuts.dtype)
    rows = cuts.shape[0] if isinstance(cuts, Num) and cuts.shape is not None and len(cuts.shape) == 2 else (NF.const(1) if isinstance(cuts, Num) and cuts.shape is not None else None)
    data = obj.meta.get("fitted_val")
    ncols = obj.meta.get("ncols")
    if ncols is None:
        if obj.fields.get("evaluation_type") is not None and getattr(obj.fields["evaluation_type"], "s", None) == "multivariate":
            ncols = NF.const(1)
        elif isinstance(data, Num) and data.shape is not None and len(data.shape) == 2:
            ncols = data.shape[1]
        else:
            ncols = sym(f"ncols({obj.key})")
    shape = (rows, ncols) if rows is not None else None
    r = ex.mk("eval", obj.key, obj.meta.get("fitted_on", "UNFITTED"), ex.as_nf(cuts, node) if isinstance(cuts, Num) else valkey(cuts), shape=shape, dtype="float")
    r.meta["eval"] = (obj, cuts)
    ex.emit("scorer_evaluate", node, obj=obj, cuts=cuts, fitted_on=obj.meta.get("fitted_on"), result=r)
    return r


def _abs_evaluate_kernel(ex, obj, args, kwargs, node):
    """`_evaluate` of an abstract scorer called directly: the same uninterpreted value as `evaluate` (for cuts that
    `evaluate` would accept), with an event saying that the scorer's own validation was bypassed"""
    ex.emit("scorer_kernel_direct", node, obj=obj)
    return _abs_evaluate(ex, obj, args, kwargs, node)


def _abs_check_is_fitted(ex, obj, args, kwargs, node):
    ex.emit("check_is_fitted", node, obj=obj)
    return NONE


def _abs_get_param_size(ex, obj, args, kwargs, node):
    p = args[0]
    return ex.mk("param_size", obj.key, p.nf, shape=(), dtype="int")


ABSTRACT_SUMMARIES = {
    "abstract:fit": _abs_fit,
    "abstract:evaluate": _abs_evaluate,
    "abstract:_evaluate": _abs_evaluate_kernel,
    "abstract:get_param_size": _abs_get_param_size,
}


def eval_atom(objkey, fitted_on, *cols):
    return app("eval", objkey, fitted_on, app("colstack", tuple(lift(c) for c in cols)))


# ------------------------------------------------------------------ detectors


def frame_sym(ex, name="X", shape=None):
    shape = shape if shape is not None else (N, Pdim)
    v = Num(sym(name), shape, "float", "frame", meta={"foreign": True, "role": name})
    ex.atom_shapes[Atom("sym", name).key] = shape
    return v


def init_params(cls_init: FuncInfo):
    a = cls_init.node.args
    params = [x.arg for x in a.args][1:]
    defaults = [None] * (len(params) - len(a.defaults)) + list(a.defaults)
    return list(zip(params, defaults))


def symbolic_hyperparams(ex, P, cls: ClassInfo, overrides=None, symbolic_bools=False):
    """Keyword arguments for cls(...) with every numeric hyper-parameter symbolic (and, on request, every boolean one
    undecided: both of its values are explored)."""
    overrides = overrides or {}
    init = P.lookup_method(cls, "__init__")
    kw = {}
    for name, d in init_params(init):
        if name in overrides:
            v = overrides[name]
            if v is not None:
                kw[name] = v(ex) if callable(v) else v
            continue
        if d is None:
            continue  # required argument without override
        if isinstance(d, ast.UnaryOp) and isinstance(d.op, ast.USub) and isinstance(d.operand, ast.Constant) and isinstance(d.operand.value, (int, float)):
            d = ast.Constant(value=-d.operand.value)
        if isinstance(d, ast.Constant):
            c = d.value
            if c is None:
                kw[name] = NONE
            elif isinstance(c, bool):
                kw[name] = Num(None, (), "bool", cond=Cond("opq", f"hyper:{name}") if symbolic_bools else Cond.const(c), meta={"hyper": name})
            elif isinstance(c, int):
                kw[name] = Num(sym(name), (), "int", meta={"hyper": name})
            elif isinstance(c, float):
                kw[name] = Num(sym(name), (), "float", meta={"hyper": name})
            elif isinstance(c, str):
                kw[name] = StrV(c)
        else:
            # non-constant default (e.g. np.mean): let the default apply
            continue
    return kw


def ok_paths(paths):
    return [p for p in paths if p.outcome == "return"]


def is_data_src(src: str) -> bool:
    """call-site source text of an argument that hands the (normalised) data matrix to a driver"""
    s = src.strip()
    return s == "X" or s.endswith(".values") or s.endswith(".to_numpy()") or (s.startswith(("np.asarray(", "np.array(")) and "X" in s)


# ----------------------------------------------------------------------------- jit neutrality

JIT_DECORATORS = ("skchange.utils.numba.soft_import.njit", "skchange.utils.numba.soft_import.jit", "skchange.utils.numba.njit", "skchange.utils.numba.jit", "numba.njit", "numba.jit")
#: options under which a compiled kernel no longer has the Python semantics the engine interprets
JIT_UNSAFE = {
    "fastmath": "fastmath lets LLVM assume no NaN/inf and reassociate: np.isnan guards (non-positive-definite covariance) may be folded away",
    "error_model": "error_model='numpy' turns ZeroDivisionError into inf/nan",
    "parallel": "parallel=True runs prange iterations concurrently and reorders reductions",
    "boundscheck": "boundscheck changes which out-of-range accesses raise",
}


def _const_false(e):
    import ast as _a

    return isinstance(e, _a.Constant) and e.value in (False, None)


def check_jit_neutral(ctx, rule):
    """Every jit decoration in the program is the soft-import decorator without semantics-changing options, and the
    soft import's own defaults for fastmath/parallel are False.  This is the assumption under which the engine may read
    kernels as plain Python; it is checked, not assumed."""
    import ast as _a

    P = ctx.P
    n = 0
    for fq, f in sorted(P.functions.items()):
        for d in f.node.decorator_list:
            call = d if isinstance(d, _a.Call) else None
            tgt = P.resolve_expr(f.module, call.func if call else d)
            name = tgt[1] if isinstance(tgt, tuple) and tgt[0] in ("external", "module") else getattr(tgt, "qualname", None)
            if name is None and isinstance(call.func if call else d, (_a.Name, _a.Attribute)):
                src = _a.unparse(call.func if call else d)
                if src.split(".")[-1] in ("njit", "jit"):
                    name = src
            if name is None or name.split(".")[-1] not in ("njit", "jit"):
                continue
            n += 1
            if not (name in JIT_DECORATORS or name.startswith("skchange.utils.numba")):
                ctx.violation(rule, f"{f.qualname}|decorator", f.loc(d), f"kernel compiled with {name} instead of the library's soft-import decorator (its defaults and the no-numba fallback do not apply)", found=_a.unparse(d))
                continue
            bad = []
            for kw in (call.keywords if call else []):
                if kw.arg in JIT_UNSAFE and not _const_false(kw.value):
                    bad.append(kw)
                if kw.arg is None:
                    bad.append(kw)
            for kw in bad:
                ctx.violation(rule, f"{f.qualname}|{kw.arg or '**'}", f.loc(d), f"kernel decorated with {_a.unparse(kw)}: {JIT_UNSAFE.get(kw.arg, 'unknown options')}", found=_a.unparse(d), expected="@njit without semantics-changing options")
            if not bad:
                ctx.holds(rule, f"{f.qualname}|options", f.loc(d), "jit decoration without semantics-changing options", nontrivial=False)
    # defaults of the soft import
    m = P.modules.get("skchange.utils.numba.soft_import")
    n_def = 0
    if m is not None:
        for node in _a.walk(m.tree):
            if isinstance(node, _a.Dict):
                for k, v in zip(node.keys, node.values):
                    if isinstance(k, _a.Constant) and k.value in ("fastmath", "parallel"):
                        n_def += 1
                        ok = False
                        if isinstance(v, _a.Call) and _a.unparse(v.func).endswith("read_boolean_env_var"):
                            dv = [kw.value for kw in v.keywords if kw.arg == "default_value"] + list(v.args[1:2])
                            ok = bool(dv) and _const_false(dv[0])
                        elif _const_false(v):
                            ok = True
                        ctx.check(ok, rule, f"soft_import|default-{k.value}@{node.lineno}", f"{m.relpath}:{v.lineno}", f"default {k.value} = {_a.unparse(v)[:70]}", expected=f"{k.value} defaults to False (opt-in through the environment only)")
    ctx.expect_min(rule + " (decorated kernels)", n, 20)
    ctx.expect_min(rule + " (soft-import defaults)", n_def, 4)


def return_exprs(func):
    """the expressions a function returns, one per `return`; a returned local name that is assigned exactly once in the
    function is replaced by the assigned expression (`r = (a, b); return r` is read as `return a, b`)"""
    import ast as _a

    assigns = {}
    for n in _a.walk(func.node):
        if isinstance(n, _a.Assign) and len(n.targets) == 1 and isinstance(n.targets[0], _a.Name):
            assigns.setdefault(n.targets[0].id, []).append(n.value)
        elif isinstance(n, (_a.AugAssign, _a.AnnAssign)) and isinstance(n.target, _a.Name):
            assigns.setdefault(n.target.id, []).append(None)
        elif isinstance(n, (_a.For, _a.comprehension)):
            for t in _a.walk(n.target):
                if isinstance(t, _a.Name):
                    assigns.setdefault(t.id, []).append(None)
    out = []
    for n in _a.walk(func.node):
        if isinstance(n, _a.Return) and n.value is not None:
            v = n.value
            seen = 0
            while isinstance(v, _a.Name) and len(assigns.get(v.id, [])) == 1 and assigns[v.id][0] is not None and seen < 4:
                v = assigns[v.id][0]
                seen += 1
            out.append(v)
    return out


def mark(ex, name):
    """drop a named marker into the event log of the path being executed (scenario phases: init / fit / evaluate)"""
    ex.emit("marker", None, name=name)


def mark_index(path, name):
    """position of the marker in this path's own event log (offsets differ from path to path); len(events) if absent"""
    for i, e in enumerate(path.events):
        if e.kind == "marker" and e.data.get("name") == name:
            return i
    return len(path.events)


def atoms_of_cond(c: Cond):
    t = c.t
    if t[0] == "cmp":
        return list(atoms_of(t[2]).values())
    if t[0] in ("and", "or"):
        return atoms_of_cond(t[1]) + atoms_of_cond(t[2])
    if t[0] in ("not", "all", "any"):
        return atoms_of_cond(t[1])
    return []


def flatten_records(bound):
    """a small record (NamedTuple) that bundles arguments counts as its named fields: {param: value} plus {field: item}"""
    out = dict(bound)
    for k_, v_ in list(bound.items()):
        if isinstance(v_, TupleV) and getattr(v_, "names", None):
            for nm_, it_ in zip(v_.names, v_.items):
                out.setdefault(nm_, it_)
    return out


def name_result_record(ex, func, tup):
    """If the summarised function returns a NamedTuple record (`return _Result(a, b, ...)`), give the summary's result
    tuple the record's field names, so that callers may read it by field as well as by position."""
    import ast as _ast

    for n in _ast.walk(func.node):
        if isinstance(n, _ast.Return) and isinstance(n.value, _ast.Call) and isinstance(n.value.func, (_ast.Name, _ast.Attribute)):
            r = ex.P.resolve_expr(func.module, n.value.func)
            fields = ex._record_fields(r) if r is not None and r.__class__.__name__ == "ClassInfo" else None
            if fields and len(fields) == len(tup.items):
                tup.names = [f_ for f_, _ in fields]
                tup.record = r
                break
    return tup


def bind_call(ex, func, args, kwargs):
    """parameter name -> value at a summarised call: positional and keyword arguments, and for a parameter the call leaves
    out the value of its default (a driver that falls back to a default is not running with what the detector was
    configured with)"""
    from ..symex import Frame

    names = func.params
    b = {}
    for i, a in enumerate(args):
        if i < len(names):
            b[names[i]] = a
    b.update(kwargs)
    fa = func.node.args
    pos = fa.posonlyargs + fa.args
    pairs = list(zip([x.arg for x in pos[len(pos) - len(fa.defaults):]], fa.defaults)) + [(k.arg, d) for k, d in zip(fa.kwonlyargs, fa.kw_defaults) if d is not None]
    for name, d in pairs:
        if name not in b:
            try:
                b[name] = ex.eval_default(d, Frame(func, func.module))
            except Undecided:
                pass
    return b
