"""Shared scenario builders and helpers for the rules."""

from __future__ import annotations

import ast
import os

from ..index import ClassInfo, FuncInfo, Program
from ..nf import NF, Atom, Undecided, app, atoms_of, declare_positive, lift, nf_equal, single_atom, sym
from ..report import VERIF, Ctx
from ..symex import Event, Executor, Path
from ..values import NONE, Cond, ListV, Num, ObjV, OpaqueV, StrV, TupleV, valkey

N, Pdim, K = sym("n"), sym("p"), sym("k")

COL_CUMSUM = "skchange.utils.numba.stats.col_cumsum"


def spec_module(P: Program, name):
    mod = f"spec.{name}"
    if mod not in P.modules:
        P.add_file(mod, os.path.join(VERIF, "spec", name + ".py"))
    return P.modules[mod]


def data_sym(ex, name="X", shape=None, dtype="float"):
    shape = shape if shape is not None else (N, Pdim)
    v = Num(sym(name), shape, dtype, "ndarray", meta={"foreign": True, "role": name})
    ex.atom_shapes[Atom("sym", name).key] = shape
    return v


def cuts_sym(ex, width, name="cuts"):
    shape = (K, NF.const(width))
    v = Num(sym(name), shape, "int", "ndarray", meta={"foreign": True, "role": "cuts"})
    ex.atom_shapes[Atom("sym", name).key] = shape
    return v


def cut_cols(width, name="cuts"):
    return [app("col", sym(name), NF.const(j)) for j in range(width)]


def declare_cut_order(width, name="cuts"):
    cols = cut_cols(width, name)
    for i in range(width):
        for j in range(i + 1, width):
            declare_positive(cols[j] - cols[i])
    return cols


def prefix_summary(ex, func, args, kwargs, so, node):
    """col_cumsum(x, init_zero=True) == PREFIX0(x): row 0 is zero, row i is the sum of the
    first i rows of x (established by rule PREFIX-BUILDER on the function body)."""
    x = args[0]
    iz = kwargs.get("init_zero", args[1] if len(args) > 1 else None)
    if not isinstance(x, Num) or x.shape is None or len(x.shape) != 2:
        raise Undecided("col_cumsum of a value that is not a 2-D array", node)
    n, p = x.shape
    zero = iz is not None and isinstance(iz, Num) and iz.cond is not None and iz.cond.is_const() and iz.cond.value()
    nonzero = iz is None or (isinstance(iz, Num) and iz.cond is not None and iz.cond.is_const() and not iz.cond.value())
    ex.emit("prefix_build", node, x=x, init_zero=zero)
    if zero:
        return ex.mk("prefix0", ex.as_nf(x, node), shape=(lift(n) + 1, p), dtype="float")
    if nonzero:
        return ex.mk("prefix", ex.as_nf(x, node), shape=(n, p), dtype="float")
    raise Undecided("col_cumsum with a non-constant init_zero", node)


def new_executor(ctx: Ctx, summaries=None, **kw):
    s = {COL_CUMSUM: prefix_summary}
    s.update(summaries or {})
    return Executor(ctx.P, summaries=s, **kw)


def run(ctx: Ctx, ex: Executor, thunk):
    paths = ex.run_paths(thunk)
    ctx.see_executor(ex, paths)
    return paths


def call_method(ex, obj, name, *args, **kwargs):
    return ex.call(ex.getattr(obj, name, None), list(args), dict(kwargs), None)


def fact_value(path: Path, cond: Cond):
    for c, v in path.facts:
        if c.key == cond.key:
            return v
        if c.key == cond.neg().key:
            return not v
    return None


def returns(paths):
    return [p for p in paths if p.outcome == "return"]


def raises(paths, name=None):
    return [p for p in paths if p.outcome == "raise" and (name is None or p.exc.exc_name == name)]


def events(path: Path, kind, func_suffix=None):
    out = []
    for e in path.events:
        if e.kind != kind:
            continue
        if func_suffix is not None and (e.func is None or not e.func.qualname.endswith(func_suffix)):
            continue
        out.append(e)
    return out


def loc_of(func: FuncInfo, node=None):
    return func.loc(node)


def has_opaque(nf: NF):
    """names of unmodelled applications inside a normal form"""
    bad = []
    for a in atoms_of(nf).values():
        if a.kind == "app" and a.args[0] in ("asarray", "opq"):
            bad.append(a.args[0])
    return bad


def norm_src(node) -> str:
    """Normalised statement text (keys findings by construct, never by line)."""
    return " ".join(ast.unparse(node).split())


def run_spec(ctx: Ctx, specname, fname, args, summaries=None):
    """Evaluate a specification function (spec/<specname>.py) on symbolic arguments with
    the same engine; returns the single return value."""
    m = spec_module(ctx.P, specname)
    f = m.functions.get(fname)
    if f is None:
        raise Undecided(f"specification {specname}.{fname} missing")
    ex = new_executor(ctx, summaries)
    holder = {}

    def thunk(ex):
        a = args(ex) if callable(args) else args
        return ex.call_function(f, list(a), {}, None, None)

    paths = ex.run_paths(thunk)
    rets = returns(paths)
    if len(rets) != 1 or len(paths) != 1:
        raise Undecided(f"specification {specname}.{fname} is not straight-line ({len(paths)} paths)")
    return rets[0].value, ex


# ---------------------------------------------------------- condition helpers


def flatten(cond: Cond, op):
    if cond.t[0] == op:
        return flatten(cond.t[1], op) + flatten(cond.t[2], op)
    return [cond]


def same_set(cond: Cond, op, parts):
    """cond == op(parts...) up to order/duplication"""
    a = {c.key for c in flatten(cond, op)}
    b = {c.key for c in parts}
    return a == b


def fired(path: Path, pred):
    """facts (cond, value) of the path with pred(cond) true"""
    return [(c, v) for c, v in path.facts if pred(c)]


def guard_outcomes(paths, pred, want_true=True):
    """paths on which a guard matching pred evaluated to want_true"""
    out = []
    for p in paths:
        for c, v in p.facts:
            if pred(c) and v == want_true:
                out.append(p)
                break
    return out


def is_cmp(c: Cond, ops, nf):
    return c.t[0] == "cmp" and c.t[1] in ops and nf_equal(c.t[2], lift(nf))


def raise_loc(p: Path, default=""):
    if p.outcome == "raise" and p.exc.func is not None:
        return p.exc.func.loc(p.exc.node)
    return default
