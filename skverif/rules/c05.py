"""C05 - dense labels and sparse detections describe the same events for any index."""

from __future__ import annotations

import ast

from ..index import FuncInfo
from ..affine import Lin
from ..nf import NF, Atom, Undecided, app, atoms_of, lift, nf_equal, single_atom, sym
from ..values import NONE, Cond, DictV, ListV, NoneV, Num, ObjV, OpaqueV, SliceV, StrV, TupleV, valkey
from .common import ABSTRACT_SUMMARIES, N, Pdim, call_method, frame_sym, new_executor, norm_src, returns, run, symbolic_hyperparams

EXPLANATION = (
    "The property is about not confusing the position of a row with the label its index carries - a kind error decided for all "
    "index types at once: (a) KIND-S2D - in the three sparse_to_dense converters the `index` argument (kind LABEL) flows only into "
    "len() and into index= of the returned frame; any lookup of labels against position structures (get_indexer, isin, .loc, "
    "comparisons) is reported; (b) KIND-D2S - every value that reaches a formatter from a dense_to_sparse converter is a position: "
    "derived from np.flatnonzero / np.where / enumerate, or from `.index` of an object on which reset_index(drop=True) was applied "
    "first; (c) TRANSFORM-WIRE - BaseDetector.transform returns sparse_to_dense(predict(X), F.index, F.columns) with "
    "F = pd.DataFrame(X) and no detector overrides transform; (d) LABEL-SENSITIVE - the collective dense_to_sparse cuts runs where "
    "the label VALUE changes (it compares labels with their neighbours, not only labels > 0), so adjacent anomalies stay separate; "
    "the subset variant iterates over np.unique(labels); (e) DENSE-FILL - change detectors write segment i on "
    "[cpts[i], cpts[i+1]) of [0] + cpts + [len(index)]; collective anomalies are labelled get_indexer(positions) + 1; the subset "
    "variant is decided under C16.c. NOT decided: pandas' IntervalIndex.get_indexer semantics for touching left-closed intervals "
    "and the exact run arithmetic (library semantics)."
)
# obligations added during the build phase (seeding rounds, twins, mutation analysis)
ADDED_IN_BUILD = " Also: (f) SPEC-EQ - the expressions that reach the formatters equal spec/dense.py as normalised by the same engine (X.index[M] after reset_index(drop=True) and X.columns[M] after `columns = range(...)` are read as np.flatnonzero(M)); the subset converter reports column POSITIONS (column-positions); the neighbour comparison never uses a circular shift (np.roll: no-wrap-around); DENSE-FILL is decided for three spellings (padded bounds list, two parallel lists, scatter + cumsum with an entailment test of its filter); every call of sktime's check_series passes allow_index_names=True so the index handed to sparse_to_dense keeps its names (C11.b re-run). DENSE-FILL of the subset detector (C16.c): the column index is the anomaly's own icolumns entry, the dense frame is built from the label matrix by position (not from a dict keyed by column labels)."
ADDED_IN_ROUND_9 = ' Round 9: DENSE-FILL no-detections - a fast path of ChangeDetector.sparse_to_dense for an empty list of changepoints must label every row 0, one label per row, on the index handed in; the general path keeps all obligations.'
EXPLANATION = EXPLANATION + ADDED_IN_BUILD + ADDED_IN_ROUND_9

ASSUMPTIONS = [
    "Python's ast module and evaluation-order/argument-binding semantics as implemented in skverif/symex.py",
    "library model table skverif/models.py: np.flatnonzero/np.arange/enumerate give positions; .index of a frame gives labels unless reset_index(drop=True) was applied; IntervalIndex(...).get_indexer(q) looks q up in the intervals",
    "sktime BaseEstimator model",
]
CONVERTERS = [
    "skchange.change_detectors.base.ChangeDetector",
    "skchange.anomaly_detectors.base.CollectiveAnomalyDetector",
    "skchange.anomaly_detectors.base.SubsetCollectiveAnomalyDetector",
]


def _fmt_summary(ex, func, args, kwargs, so, node):
    ex.emit("format_call", node, owner=func.cls.name if func.cls else getattr(getattr(func, "owner_cls", None), "name", None), args=args, kwargs=kwargs)
    return OpaqueV("formatted", {"kind": "frame"})


def fmt_summaries(ctx):
    return {c.methods["_format_sparse_output"].qualname: _fmt_summary for c in ctx.P.classes.values() if "_format_sparse_output" in c.methods}


def check(ctx):
    for q in CONVERTERS:
        cls = ctx.P.cls(q)
        for m in ("sparse_to_dense", "dense_to_sparse"):
            if m not in cls.methods:
                ctx.undecided("C05 CONVERTERS", f"{cls.name}.{m}", cls.module.relpath, "converter not found (anchor vanished)")
        ctx.guard("C05.a KIND-S2D", cls.name, lambda cls=cls: check_s2d(ctx, cls), cls.module.relpath)
        ctx.guard("C05.b KIND-D2S", cls.name, lambda cls=cls: check_d2s(ctx, cls), cls.module.relpath)
    ctx.guard("C05.c TRANSFORM-WIRE", "transform", lambda: check_transform(ctx))
    # the index handed to sparse_to_dense is the caller's own, names included (C11.b: check_series keeps index names)
    from . import c11

    before = len(ctx.obs)
    ctx.guard("C05.c TRANSFORM-WIRE", "check_series", lambda: c11.check_series_keeps_names(ctx))
    for o in ctx.obs[before:]:
        o.rule = o.rule.replace("C11.b CARRY-INDEX", "C05.c TRANSFORM-WIRE (C11.b CARRY-INDEX)")
    from . import c16

    before = len(ctx.obs)
    ctx.guard("C05.e DENSE-FILL", "SubsetCollectiveAnomalyDetector", lambda: c16.check_dense(ctx))
    for o in ctx.obs[before:]:
        o.rule = o.rule.replace("C16.c DENSE-MARK", "C05.e DENSE-FILL (C16.c)")
    ctx.expect_min("C05", len([o for o in ctx.obs if o.status == "HOLDS"]), 14)


def run_s2d(ctx, cls):
    f = cls.methods["sparse_to_dense"]
    ex = new_executor(ctx, max_paths=60)

    def thunk(ex):
        ys = OpaqueV("y_sparse", {"kind": "frame"})
        index = Num(sym("index"), (N,), None, "index", meta={"kind": "LABEL"})
        cols = Num(sym("columns"), (Pdim,), None, "index", meta={"kind": "LABEL"})
        ex.atom_shapes[Atom("sym", "index").key] = (N,)
        ex.atom_shapes[Atom("sym", "columns").key] = (Pdim,)
        return ex.call_function(f, [ys, index, cols], {}, None, None)

    return f, ex, run(ctx, ex, thunk)


def check_s2d(ctx, cls):
    rule = "C05.a KIND-S2D"
    f, ex, paths = run_s2d(ctx, cls)
    rets = returns(paths)
    if not rets:
        ctx.undecided(rule, f"{cls.name}.sparse_to_dense", f.loc(), "never returns", found=[p.exc.exc_name for p in paths if p.exc][:3])
        return
    uses = {}
    for p in paths:
        for e in p.events:
            if e.kind == "label_use":
                uses.setdefault((e.loc(), e.data["callee"]), e)
    for (l, callee), e in uses.items():
        ctx.violation(rule, f"{cls.name}|{callee.split('.')[-1][:30]}", l, "LABELS of the data (its index, or its column labels) are matched with integer POSITIONS: for any index other than 0..n-1 (offset range, datetime, period) / any integer column labels other than 0..p-1 the dense output is wrong", found=norm_src(e.node)[:120], expected="positions np.arange(len(index)); the index only as index= of the result")
    if not uses:
        ctx.holds(rule, f"{cls.name}.sparse_to_dense", f.loc(), f"`index` flows only into len() and index= on all {len(paths)} paths")
    # a fast path for "no detections" (the list of sparse positions is empty): nothing to fill, every row gets label 0.
    # Such a path is judged on its own (all-zero labels, one per row, on the index handed in) and set aside; the
    # obligations below are decided on the general path.
    if cls.name == "ChangeDetector":
        general = []
        for p in rets:
            if _empty_detections(p):
                v = p.value
                ctor = [e for e in p.events if e.kind == "pandas_ctor" and e.func is not None and e.func.qualname == f.qualname]
                ia = ctor[-1].data.get("index") if ctor else None
                ok0 = isinstance(v, Num) and v.nf is not None and v.nf.as_const() == 0 and v.shape is not None and nf_equal(lift(v.shape[0]), lift(N)) and isinstance(ia, Num) and ia.nf is not None and nf_equal(ia.nf, sym("index"))
                ctx.check(ok0, "C05.e DENSE-FILL", f"{cls.name}|no-detections", ctor[-1].loc() if ctor else f.loc(), "without changepoints every row gets label 0 (one segment), on the index handed in", found=f"{v!r} index={valkey(ia) if ia is not None else None}"[:140], expected="zeros(len(index)) on index", nontrivial=False)
            else:
                general.append(p)
        if not general:
            ctx.undecided(rule, f"{cls.name}.sparse_to_dense", f.loc(), "every returning path is the no-detections fast path")
            return
        rets = general
    # the frame is built on the index handed in
    for p in rets[:1]:
        ctor = [e for e in p.events if e.kind == "pandas_ctor" and e.func is not None and e.func.qualname == f.qualname]
        ia = ctor[-1].data.get("index") if ctor else None
        ctx.check(isinstance(ia, Num) and ia.nf is not None and nf_equal(ia.nf, sym("index")), rule, f"{cls.name}|carrier", ctor[-1].loc() if ctor else f.loc(), "the dense output carries exactly the index handed in", found=valkey(ia) if ia is not None else "no index=")
    # ---------------------------------------------------------------- DENSE-FILL
    if cls.name == "ChangeDetector":
        dense_fill_change(ctx, f, ex, rets[0])
    elif cls.name == "CollectiveAnomalyDetector":
        dense_fill_collective(ctx, f, ex, rets[0])


def _flatten_list(l):
    parts = getattr(l, "parts", None)
    if parts is None:
        return [l]
    return _flatten_list(parts[0]) + _flatten_list(parts[1])


def _scatter_cumsum(ctx, f, ex, p, arrs):
    """idiom B: a zero mask with ones scattered at the changepoints, labels = cumsum(mask): row i is labelled with the
    number of changepoints <= i.  Returns True if the idiom was recognised (and decided)."""
    import re

    rule = "C05.e DENSE-FILL"
    if len(arrs) != 1 or len(arrs[0].stores) != 1 or arrs[0].stores[0].loops:
        return False
    a = arrs[0]
    s = a.stores[0]
    ctor = [e for e in p.events if e.kind == "pandas_ctor" and e.data.get("which") == "frame"]
    data = ctor[-1].data.get("data") if ctor else None
    da = single_atom(data.nf) if isinstance(data, Num) and data.nf is not None else None
    if da is None or da.kind != "app" or da.args[0] != "cumsum" or not any(x.kind == "arr" and x.args[0] == a.aid for x in atoms_of(da.args[1]).values()):
        return False
    ctx.check(a.shape is not None and len(a.shape) == 1 and nf_equal(lift(a.shape[0]), lift(N)), rule, "ChangeDetector|alloc", f.loc(a.node), "one mask entry per row: zeros(len(index))", found=f"shape {a.shape}")
    val = s.data["value"]
    one = isinstance(val, Num) and ((val.cond is not None and val.cond.t == ("const", True)) or (val.nf is not None and val.nf.as_const() == 1))
    ctx.check(one and not s.data.get("aug"), rule, "ChangeDetector|label", s.loc(), "each changepoint contributes exactly one to the running count", found=repr(val), expected="True / 1")
    idx = s.data["index"]
    k = valkey(idx[0]) if len(idx) == 1 else ""
    from_ilocs = "ilocs" in k and "y_sparse" in k
    ctx.check(from_ilocs, rule, "ChangeDetector|bounds", s.loc(), "the ones are scattered at the changepoints of the sparse output", found=k[:120])
    # a filter on the changepoints must keep every valid changepoint 0 <= c <= n - 1
    m = re.search(r"cmp(<=|>=|<|>)\(\[(.*?)\]/\[1\],", k) or re.search(r"cmp(<=|>=|<|>)\(.*?,\[(.*?)\]/\[1\]\)", k)
    if "C('opq'" in k or "cmp" in k:
        if not m:
            ctx.undecided(rule, "ChangeDetector|all-segments", s.loc(), "the changepoints are filtered by a condition that cannot be read", found=k[:160])
            return True
        op, btxt = m.group(1), m.group(2).strip()
        bound_first = bool(re.search(r"cmp(<=|>=|<|>)\(\[", k))
        known = {"n": lift(N), "n - 1": lift(N) - 1, "n + 1": lift(N) + 1, "n - 2": lift(N) - 2, "0": NF.const(0), "1": NF.const(1), "-1": NF.const(-1)}
        if btxt not in known:
            ctx.undecided(rule, "ChangeDetector|all-segments", s.loc(), f"filter bound {btxt!r} not understood", found=k[:160])
            return True
        b = known[btxt]
        cp = sym("cp")
        lhs, rhs = (b, cp) if bound_first else (cp, b)
        cond = Cond.cmp(op, lhs, rhs)
        from ..affine import entails, from_cond

        goal = from_cond(cond, True, True)
        dom = [Lin.of(cp), Lin.of(lift(N) - 1 - cp)]
        keeps = goal is not None and all(entails(dom, g) for g in goal)
        ctx.check(keeps, rule, "ChangeDetector|all-segments", s.loc(), "the filter keeps every valid changepoint 0 <= c <= n - 1 (a changepoint at the last row starts a segment too)", found=f"changepoints[{'%r %s c' % (b, op) if bound_first else 'c %s %r' % (op, b)}]", expected="a condition implied by 0 <= c <= n - 1")
    else:
        ctx.holds(rule, "ChangeDetector|all-segments", s.loc(), "every changepoint of the sparse output is scattered (no filter)")
    return True


def _empty_detections(p):
    """a fact of the path says that a list is empty (`len(changepoints) == 0`, `not changepoints`) and the path neither
    loops nor stores: the fast path for an empty sparse output"""
    empty = False
    for c, v in p.facts:
        t = getattr(c, "t", None)
        if not t or t[0] != "cmp":
            continue
        ats = list(atoms_of(t[2]).values())
        if len(ats) != 1 or ats[0].kind != "app" or ats[0].args[0] != "listlen":
            continue
        L = NF.atom(ats[0])
        op, nf = t[1], t[2]
        if (op == "==0" and v and (nf_equal(nf, L) or nf_equal(nf, -L))) or (op == "<0" and v and nf_equal(nf, L - 1)) or (op == "<=0" and v and nf_equal(nf, L)) or (op == "<0" and not v and nf_equal(nf, -L)) or (op == "!=0" and not v and (nf_equal(nf, L) or nf_equal(nf, -L))):
            empty = True
    if not empty:
        return False
    return not any(e.kind in ("loop_enter", "store", "store_foreign", "store_opaque") for e in p.events)


def dense_fill_change(ctx, f, ex, p):
    rule = "C05.e DENSE-FILL"
    arrs = [e.data["arr"] for e in p.events if e.kind == "alloc" and e.data["arr"].init[0] == "zeros"]
    if _scatter_cumsum(ctx, f, ex, p, arrs):
        return
    if len(arrs) != 1 or len(arrs[0].stores) != 1 or not arrs[0].stores[0].loops:
        ctx.undecided(rule, "ChangeDetector", f.loc(), "segment labels are not one zero-allocated vector written in a loop")
        return
    a = arrs[0]
    s = a.stores[0]
    lp = s.loops[-1]
    lv = NF.atom(Atom("lv", lp.lid))
    ctx.check(a.shape is not None and len(a.shape) == 1 and nf_equal(lift(a.shape[0]), lift(N)), rule, "ChangeDetector|alloc", f.loc(a.node), "one label per row: zeros(len(index))", found=f"shape {a.shape}")
    idx, val = s.data["index"], s.data["value"]
    ok = len(idx) == 1 and isinstance(idx[0], SliceV) and isinstance(idx[0].lo, Num) and isinstance(idx[0].hi, Num)
    lst = None
    pair = None
    if ok:
        lo_a, hi_a = single_atom(idx[0].lo.nf), single_atom(idx[0].hi.nf)
        both = lo_a is not None and hi_a is not None and lo_a.kind == "app" and hi_a.kind == "app" and lo_a.args[0] == "listitem" and hi_a.args[0] == "listitem"
        ok = both and lo_a.args[1] == hi_a.args[1] and nf_equal(lo_a.args[2], lv) and nf_equal(hi_a.args[2], lv + 1)
        if ok:
            lst = idx[0].lo.meta.get("list_item", (None, None))[0]
        elif both and lo_a.args[1] != hi_a.args[1] and nf_equal(lo_a.args[2], lv) and nf_equal(hi_a.args[2], lv):
            # idiom C: two parallel lists, starts = [0] + changepoints and ends = changepoints + [n], read at the same i
            A = idx[0].lo.meta.get("list_item", (None, None))[0]
            B = idx[0].hi.meta.get("list_item", (None, None))[0]
            if A is not None and B is not None:
                pair = (A, B)
                ok = True
    ctx.check(ok, rule, "ChangeDetector|slice", s.loc(), "segment i is written on rows [bounds[i], bounds[i+1])", found=f"[{valkey(idx[0].lo) if idx and isinstance(idx[0], SliceV) else '?'} : {valkey(idx[0].hi) if idx and isinstance(idx[0], SliceV) else '?'}]", expected="bounds[i] : bounds[i + 1]")
    ctx.check(isinstance(val, Num) and nf_equal(val.nf, lv) and not s.data.get("aug"), rule, "ChangeDetector|label", s.loc(), "and gets label i (segments numbered from 0)", found=repr(val), expected="i")
    if lst is not None:
        flat = _flatten_list(lst)
        first_ok = len(flat) == 3 and len(flat[0].items) == 1 and isinstance(flat[0].items[0], Num) and flat[0].items[0].nf.as_const() == 0
        last_ok = len(flat) == 3 and len(flat[2].items) == 1 and isinstance(flat[2].items[0], Num) and nf_equal(flat[2].items[0].nf, lift(N))
        mid_ok = len(flat) == 3 and "ilocs" in str(getattr(flat[1], "key", "")) and "y_sparse" in str(getattr(flat[1], "key", ""))
        ctx.check(first_ok and last_ok and mid_ok, rule, "ChangeDetector|bounds", f.loc(), "bounds == [0] + changepoints + [len(index)]", found=[repr(x)[:50] for x in flat])
        rng = lp.info.get("range")
        okr = rng is not None and rng[0].as_const() == 0 and rng[2].as_const() == 1 and _is_len_minus_one(rng[1], lst)
        ctx.check(okr, rule, "ChangeDetector|all-segments", f.loc(lp.node), "all len(bounds) - 1 segments are written", found=repr(rng))
    if pair is not None:
        A, B = pair
        fa, fb = _flatten_list(A), _flatten_list(B)
        is_cps = lambda q: "ilocs" in str(getattr(q, "key", "")) and "y_sparse" in str(getattr(q, "key", ""))  # noqa: E731
        first_ok = len(fa) == 2 and not fa[0].opaque and len(fa[0].items) == 1 and isinstance(fa[0].items[0], Num) and fa[0].items[0].nf.as_const() == 0 and is_cps(fa[1])
        last_ok = len(fb) == 2 and not fb[1].opaque and len(fb[1].items) == 1 and isinstance(fb[1].items[0], Num) and nf_equal(fb[1].items[0].nf, lift(N)) and is_cps(fb[0])
        same = first_ok and last_ok and (fa[1] is fb[0] or getattr(fa[1], "key", 0) == getattr(fb[0], "key", 1))
        ctx.check(first_ok and last_ok and same, rule, "ChangeDetector|bounds", f.loc(), "segment starts == [0] + changepoints and segment ends == changepoints + [len(index)] (of the same changepoints)", found=[repr(x)[:50] for x in fa + fb])
        rng = lp.info.get("range")
        # both lists hold len(changepoints) + 1 elements; the loop runs over all of them
        okr = False
        if rng is not None and rng[0].as_const() == 0 and rng[2].as_const() == 1:
            for q in (A, B):
                la = [x for x in atoms_of(rng[1], deep=False).values() if x.kind == "app" and x.args[0] == "listlen" and x.args[1] == q.lid]
                okr = okr or (len(la) == 1 and nf_equal(rng[1], NF.atom(la[0])))
        ctx.check(okr, rule, "ChangeDetector|all-segments", f.loc(lp.node), "all len(changepoints) + 1 segments are written", found=repr(rng))


def _is_len_minus_one(nf, lst):
    a = [x for x in atoms_of(nf, deep=False).values() if x.kind == "app" and x.args[0] == "listlen" and x.args[1] == lst.lid]
    return len(a) == 1 and nf_equal(nf, NF.atom(a[0]) - 1)


def dense_fill_collective(ctx, f, ex, p):
    rule = "C05.e DENSE-FILL"
    ctor = [e for e in p.events if e.kind == "pandas_ctor" and e.func is not None and e.func.qualname == f.qualname]
    if not ctor:
        ctx.undecided(rule, "CollectiveAnomalyDetector", f.loc(), "no frame constructed")
        return
    d = ctor[-1].data["data"]
    k = valkey(d)
    want_pos = app("arange", NF.const(0), lift(N)).key
    ok = "get_indexer" in k and "ilocs" in k and want_pos in k and k.startswith("opq:Add(") and k.rstrip(")").endswith("[1]/[1]")
    ctx.check(ok, rule, "CollectiveAnomalyDetector|lookup", ctor[-1].loc(), "labels == IntervalIndex(ilocs).get_indexer(np.arange(len(index))) + 1: row position i gets the number of the interval covering it, 0 if none", found=k[:200], expected="get_indexer(arange(0, n)) + 1")


# -------------------------------------------------------------------- KIND-D2S


def check_d2s(ctx, cls):
    rule = "C05.b KIND-D2S"
    f = cls.methods["dense_to_sparse"]
    ex = new_executor(ctx, fmt_summaries(ctx), max_paths=60)

    def thunk(ex):
        return ex.call_function(f, [OpaqueV("y_dense", {"kind": "frame"})], {}, None, None)

    paths = run(ctx, ex, thunk)
    rets = returns(paths)
    if not rets:
        ctx.undecided(rule, f"{cls.name}.dense_to_sparse", f.loc(), "never returns", found=[p.exc.exc_name for p in paths if p.exc][:3])
        return
    p = rets[0]
    fm = [e for e in p.events if e.kind == "format_call"]
    if len(fm) != 1 or p.value is None or valkey(p.value) != "opq:formatted":
        ctx.violation(rule, f"{cls.name}|formatter", f.loc(), "dense_to_sparse does not return its own formatter's output", found=repr(p.value))
        return
    ctx.check(fm[0].data["owner"] == cls.name, rule, f"{cls.name}|formatter", fm[0].loc(), f"the result is formatted by {cls.name}._format_sparse_output", found=fm[0].data["owner"])
    arg = fm[0].data["args"][0] if fm[0].data["args"] else None
    keys = _position_keys(ex, p, arg)
    bad = [k for k in keys if not _is_position_key(k)]
    ctx.check(bool(keys) and not bad, rule, f"{cls.name}|positions", fm[0].loc(), "everything handed to the formatter is an integer POSITION (from flatnonzero/where/enumerate, or .index after reset_index(drop=True)) - never an index label", found=(bad or keys)[0][:200] if (bad or keys) else "nothing reaches the formatter", expected="positions")
    cl = fm[0].data["kwargs"].get("closed")
    if cls.name != "ChangeDetector":
        ctx.check(cl is None or (isinstance(cl, StrV) and cl.s == "left"), rule, f"{cls.name}|closed", fm[0].loc(), "intervals are emitted left-closed", found=repr(cl))
    # ------------------------------------------------------------ SPEC-EQ
    if cls.name == "ChangeDetector":
        spec_equal(ctx, "C05.f SPEC-EQ", "ChangeDetector|dense_to_sparse", fm[0].loc(), keys, "change_points", "changepoints = positions whose label differs from the previous one")
    if cls.name == "CollectiveAnomalyDetector" and isinstance(arg, ListV) and getattr(arg, "zip_parts", None):
        spec_equal(ctx, "C05.f SPEC-EQ", "CollectiveAnomalyDetector|dense_to_sparse", fm[0].loc(), [valkey(x) for x in arg.zip_parts[:2]], "collective_intervals", "anomalies = maximal runs of one positive label, [first, last + 1)")
    if cls.name == "SubsetCollectiveAnomalyDetector" and isinstance(arg, ListV):
        aps = [e for e in p.events if e.kind == "list_append" and e.data["lst"] is arg and isinstance(e.data["value"], TupleV)]
        if aps and aps[0].loops:
            # anomalies are listed in increasing label order (label k is the k-th anomaly of predict): the labels are visited
            # in sorted order - np.unique sorts by contract; pd.unique / Series.unique keep the order of first appearance
            over = aps[0].loops[-1].info.get("over")
            ok_ = valkey(over) if over is not None else ""
            sorted_src = ("unique(" in ok_ and "pandas.unique" not in ok_ and ".unique()" not in ok_) or "sorted(" in ok_ or "numpy.sort(" in ok_
            unsorted_src = "pandas.unique" in ok_ or ".unique()" in ok_ or "drop_duplicates" in ok_
            if sorted_src and not unsorted_src:
                ctx.holds("C05.d LABEL-SENSITIVE", "SubsetCollectiveAnomalyDetector|label-order", aps[0].loc(), "labels are visited in increasing order (np.unique / sorted): anomaly k of the output is the one labelled k")
            elif unsorted_src:
                ctx.violation("C05.d LABEL-SENSITIVE", "SubsetCollectiveAnomalyDetector|label-order", aps[0].loc(), "labels are visited in order of first appearance (pd.unique / Series.unique), not in increasing order: anomalies come out permuted when a later anomaly touches an earlier column", found=ok_[:160], expected="np.unique(...) or sorted(...)")
            else:
                ctx.undecided("C05.d LABEL-SENSITIVE", "SubsetCollectiveAnomalyDetector|label-order", aps[0].loc(), "cannot tell in which order the labels are visited", found=ok_[:160])
        if aps:
            # the affected columns are column POSITIONS: np.flatnonzero of a column mask, or .columns[mask] after the columns
            # were replaced by range(number of columns)
            creset = _columns_reset(p)
            items = aps[0].data["value"].items
            if len(items) >= 3:
                ck = _vkey(items[2])
                by_label = "columns(" in ck and not creset
                positional = ("columns(" in ck and creset) or (("flatnonzero" in ck or "numpy.where" in ck or "arange" in ck) and "columns(" not in ck)
                ctx.check(positional and not by_label, rule, f"{cls.name}|column-positions", aps[0].loc(), "the affected columns are reported as integer column positions (flatnonzero of the column mask, or .columns[mask] after `columns = range(...)`), never as column labels", found=("columns were not replaced by range(...) before .columns[mask] was read: " if by_label else "") + ck[:160], expected="positions")
            spec_equal(ctx, "C05.f SPEC-EQ", "SubsetCollectiveAnomalyDetector|dense_to_sparse", aps[0].loc(), [_vkey(x) for x in items], "subset_intervals", "one anomaly per positive label: (first labelled row, last labelled row + 1, labelled columns)", columns_reset=creset)
    # ------------------------------------------------------------ LABEL-SENSITIVE
    if cls.name == "CollectiveAnomalyDetector":
        ks = " ".join(keys)
        # a circular shift makes the first and the last row neighbours, which they are not: an anomaly that touches both
        # ends of the series has no start and no end
        circ = [k for k in keys if "numpy.roll(" in k or ".roll(" in k or "roll(" in k.replace("enroll", "")]
        ctx.check(not circ, "C05.d LABEL-SENSITIVE", "CollectiveAnomalyDetector|no-wrap-around", fm[0].loc(), "labels are compared with their neighbours through a shift that lets a NORMAL label (0) enter at the boundary, never through a circular shift (np.roll)", found=(circ[0][:160] if circ else "no circular shift"), expected="np.concatenate(([0], labels[:-1])) / np.concatenate((labels[1:], [0]))", nontrivial=False)
        sensitive = _compares_neighbours(keys)
        ctx.check(sensitive, "C05.d LABEL-SENSITIVE", "CollectiveAnomalyDetector", fm[0].loc(), "interval boundaries depend on the label VALUES (labels are compared with their neighbours), so two adjacent anomalies with different labels stay two intervals", found=ks[:260], expected="a comparison labels != shifted labels (not only labels > 0)")
        # starts and ends: ends are exclusive (+1)
        if isinstance(arg, ListV) and getattr(arg, "zip_parts", None):
            s_, e_ = arg.zip_parts[:2]
            oks = isinstance(s_, Num) and single_atom(s_.nf) is not None and single_atom(s_.nf).args[0] == "flatnonzero"
            oke = isinstance(e_, Num) and any(a.kind == "app" and a.args[0] == "flatnonzero" for a in atoms_of(e_.nf, deep=False).values()) and (e_.nf - NF.atom([a for a in atoms_of(e_.nf, deep=False).values() if a.kind == "app"][0])).as_const() == 1
            ctx.check(oks and oke, "C05.e DENSE-FILL", "CollectiveAnomalyDetector|exclusive-end", fm[0].loc(), "an anomaly is (first position, last position + 1): left-closed, right-open", found=f"({s_!r}, {e_!r})"[:200])
    if cls.name == "SubsetCollectiveAnomalyDetector":
        ks = " ".join(keys)
        ctx.check("unique" in ks, "C05.d LABEL-SENSITIVE", "SubsetCollectiveAnomalyDetector", fm[0].loc(), "one anomaly per distinct label value (iteration over np.unique(labels))", found=ks[:200])


def _balanced(k: str, i: int) -> int:
    """index just past the parenthesis group that opens at k[i] == '(' (quotes inside keys are not special: the keys are
    built from balanced constructor calls)"""
    depth = 0
    for j in range(i, len(k)):
        if k[j] == "(":
            depth += 1
        elif k[j] == ")":
            depth -= 1
            if depth == 0:
                return j + 1
    return -1


def _positional_masks(k: str, columns_reset: bool) -> str:
    """X.index[M] of a frame whose index was reset (reset_index(drop=True)) and X.columns[M] of a frame whose columns were
    replaced by range(...) are the POSITIONS where M holds: np.flatnonzero(M).  Rewritten to that canonical form."""
    for attr in ("index", "columns"):
        head = f"idx({attr}("
        start = 0
        while True:
            i = k.find(head, start)
            if i == -1:
                break
            j = _balanced(k, i + len(head) - 1)  # past attr(...)
            x = k[i + len(head): j - 1] if j != -1 else ""
            tail = ", ((mask, "
            ok = j != -1 and k.startswith(tail, j) and ((attr == "index" and "reset_index()" in x) or (attr == "columns" and columns_reset))
            if not ok:
                start = i + len(head)
                continue
            end = _balanced(k, i + 3)  # past idx(...)
            if end == -1:
                break
            cond = k[j + len(tail): end - 3]  # strip the closing ")))": of (mask, C), of the index tuple and of idx(
            k = k[:i] + f"flatnonzero({cond})" + k[end:]
            start = i
    return k


def _norm_key(k: str, columns_reset: bool = False) -> str:
    import re

    k = re.sub(r"lv\([^)]*\)", "lv", k)
    # .values and .to_numpy() are the same array
    k = k.replace(".to_numpy()", ".values")
    k = _positional_masks(k, columns_reset)
    return k


def _skeleton(k: str) -> str:
    """the expression with its comparison operators, signs of additive constants and integer constants blanked out"""
    import re

    k = _norm_key(k)
    k = re.sub(r"cmp(<=|>=|==|!=|<|>)", "cmp?", k)
    k = re.sub(r"(<=|<|==|!=)0(?=\\*')", "?0", k)
    k = re.sub(r"\[-?\d+\]/\[1\]", "[#]", k)
    k = re.sub(r"(any|all)ax-?\d+", r"\1ax#", k)
    k = re.sub(r"(?<![\w.])-?\d+(?![\w.])", "#", k)
    k = re.sub(r"[+-] #", "± #", k)
    k = re.sub(r"\[-", "[", k)
    return k


def _vkey(x):
    """key of a value; a list made from an un-interpreted sequence (.to_list()) is keyed by that sequence"""
    if isinstance(x, ListV):
        lo = getattr(x, "list_of", None)
        if lo is not None:
            return "list(" + valkey(lo) + ")"
        if getattr(x, "key", None):
            return "list(" + str(x.key) + ")"
        fa = getattr(x, "from_array", None)
        if fa is not None:
            return "list(" + valkey(fa) + ")"
    return valkey(x)


def _columns_reset(p):
    """the path replaces the columns of the label frame by range(...) (column labels become column positions)"""
    from ..values import RangeV

    for e in p.events:
        if e.kind == "ext_attr_store" and e.data.get("attr") == "columns":
            v = e.data.get("value")
            if isinstance(v, RangeV) and isinstance(v.lo, Num) and v.lo.nf.as_const() == 0 and v.step.nf.as_const() == 1 and "columns" in valkey(v.hi) and ("size" in valkey(v.hi) or "len(" in valkey(v.hi) or "shape" in valkey(v.hi)):
                return True
            if isinstance(v, Num) and v.nf is not None:
                a = single_atom(v.nf)
                if a is not None and a.kind == "app" and a.args[0] == "arange" and lift(a.args[1]).as_const() == 0:
                    return True
    return False


def spec_equal(ctx, rule, key, loc, got_keys, specname, what, columns_reset=False):
    """Compare the expressions that reach the formatter with the specification spec/dense.py:<specname>, both as the engine
    normalises them on the same un-interpreted label frame.  Equal: HOLDS.  Same expression skeleton but another
    comparison operator or constant: VIOLATION (an off-by-one or a flipped test).  Another skeleton: the library computes
    the positions by an algorithm the specification cannot be matched with - UNDECIDED, not a verdict."""
    from .common import run_spec, spec_module

    if specname == "subset_intervals":
        # the specification records one tuple per label in a loop: compare the recorded tuple
        m = spec_module(ctx.P, "dense")
        fn = m.functions.get(specname)
        sx = new_executor(ctx, fmt_summaries(ctx), max_paths=60)
        sp = [q for q in sx.run_paths(lambda ex: ex.call_function(fn, [OpaqueV("y_dense", {"kind": "frame"})], {}, None, None)) if q.outcome == "return"]
        aps = [e for e in sp[0].events if e.kind == "list_append"] if sp else []
        if not aps or not isinstance(aps[0].data["value"], TupleV):
            raise Undecided("specification dense.subset_intervals records nothing")
        wk = [_vkey(x) for x in aps[0].data["value"].items]
        w_reset = _columns_reset(sp[0])
    else:
        w_reset = False
        want, sx = run_spec(ctx, "dense", specname, lambda ex: [OpaqueV("y_dense", {"kind": "frame"})], fmt_summaries(ctx))
        wk = [valkey(x) for x in (want.items if isinstance(want, TupleV) else [want])]
    g = [_norm_key(k, columns_reset) for k in got_keys]
    w = [_norm_key(k, w_reset) for k in wk]
    if g == w:
        ctx.holds(rule, key, loc, f"{what}: the expressions handed to the formatter equal the specification spec/dense.py:{specname}")
        return
    if len(g) == len(w) and [_skeleton(k) for k in g] == [_skeleton(k) for k in w]:
        i = next(j for j in range(len(g)) if g[j] != w[j])
        ctx.violation(rule, key, loc, f"{what}: same expression as the specification spec/dense.py:{specname} except for a comparison operator or an integer constant", found=g[i][:300], expected=w[i][:300])
        return
    import re as _re

    # one shape that is decided although it is not the specification's: the anomaly labels taken by POSITION in the sorted
    # distinct values (`np.unique(v)[1:]`, element u[i + 1]) instead of by a test against 0.  [1:] drops the smallest
    # value, which is the normal label 0 only if some cell is normal: when every cell belongs to an anomaly the first
    # anomaly is dropped
    guarded = False
    cls_ = next((c for c in ctx.P.classes.values() if c.name == key.split("|")[0]), None)
    f_ = cls_.methods.get("dense_to_sparse") if cls_ is not None else None
    if f_ is not None:
        tests = [ast.unparse(n.test) for n in ast.walk(f_.node) if isinstance(n, (ast.If, ast.IfExp))]
        guarded = any("[0]" in t and any(w in t for w in ("== 0", "!= 0", "> 0", "<= 0", "< 1", ">= 1")) for t in tests)
    if not guarded and any(_re.search(r"idx\(unique\(.*?\), \(\(at, lv \+ \d+\)\)\)", k) for k in g) and not any("cmp<" in k or "cmp>" in k or "cmp!=" in k for k in g):
        ctx.violation(rule, key, loc, f"{what}: the labels are taken by position in the sorted distinct values (unique(...)[1:]) instead of by a test against 0 - with no normal cell in the dense output the smallest label is an anomaly and is dropped", found=(g[0] if g else "nothing")[:200], expected="labels[labels > 0]")
        return
    ctx.undecided(rule, key, loc, f"{what}: the positions are computed by an expression of another shape than spec/dense.py:{specname} (not comparable)", found=(g[0] if g else "nothing")[:200])


def _position_keys(ex, p, arg):
    """string keys of every value that can reach the formatter through `arg`"""
    out = []
    if isinstance(arg, Num):
        out.append(valkey(arg))
    elif isinstance(arg, ListV):
        zp = getattr(arg, "zip_parts", None)
        if zp:
            out.extend(valkey(x) for x in zp)
        for e in p.events:
            if e.kind == "list_append" and e.data["lst"] is arg:
                v = e.data["value"]
                if isinstance(v, TupleV):
                    out.extend(valkey(x) for x in v.items[:2])
                else:
                    out.append(valkey(v))
        out.extend(valkey(x) for x in arg.items)
        lo = getattr(arg, "list_of", None)
        if lo is not None and not zp:
            out.append(valkey(lo))
    elif arg is not None:
        out.append(valkey(arg))
    return out


def _is_position_key(k: str) -> bool:
    if ".index" in k or "index(" in k.replace("reset_index(", ""):
        # an index access: positions only if the object's index was reset first
        return "reset_index" in k
    if ".loc[" in k or ".idxmax" in k or ".idxmin" in k or ".keys()" in k:
        return False
    return any(w in k for w in ("flatnonzero", "arange", "enumerate", "argmax", "argmin", "lv(", "count("))


def _compares_neighbours(keys):
    for k in keys:
        # a != / == comparison whose two sides both derive from the label column
        for op in ("cmp!=(", "cmp==("):
            j = k.find(op)
            while j != -1:
                seg = k[j: j + 400]
                if seg.count("labels") >= 2 or ("labels" in seg and ("concat" in seg or "roll" in seg or "shift" in seg or "diff" in seg)):
                    return True
                j = k.find(op, j + 1)
        if ".diff()" in k and "labels" in k and "cmp!=" in k:
            return True
    return False


# -------------------------------------------------------------- TRANSFORM-WIRE


def check_transform(ctx):
    rule = "C05.c TRANSFORM-WIRE"
    base = ctx.P.cls("skchange.base.base_detector.BaseDetector")
    for c in ctx.P.subclasses(base, strict=True):
        if "transform" in c.methods:
            ctx.violation(rule, f"{c.name}|override", c.methods["transform"].loc(), "a detector overrides transform(): dense labels are no longer sparse_to_dense(predict(X))")
    from .c11 import _s2d_summary, _summaries, make_detector, raw

    for pkg, name in (("skchange.change_detectors", "PELT"), ("skchange.anomaly_detectors", "CAPA"), ("skchange.anomaly_detectors", "MVCAPA")):
        cls = ctx.P.public_class(pkg, name)
        ex = new_executor(ctx, _summaries(ctx, cls), max_paths=300)

        def thunk(ex, cls=cls):
            obj = make_detector(ex, ctx, cls)
            call_method(ex, obj, "fit", frame_sym(ex, "Xtrain"))
            return call_method(ex, obj, "transform", raw("X"))

        paths = run(ctx, ex, thunk)
        good = returns(paths)
        tf = base.methods["transform"]
        if not good:
            ctx.undecided(rule, name, tf.loc(), "transform never returns")
            continue
        for p in good[:1]:
            sd = [e for e in p.events if e.kind == "s2d_call"]
            fm = [e for e in p.events if e.kind == "format_call"]
            if len(sd) != 1:
                ctx.violation(rule, name, tf.loc(), f"transform calls sparse_to_dense {len(sd)} times")
                continue
            b = sd[0].data["bound"]
            vals = list(b.values())
            ok_y = vals and valkey(vals[0]) == "opq:formatted" and bool(fm)
            ok_i = isinstance(b.get("index"), Num) and nf_equal(b["index"].nf, app("index", sym("X")))
            ok_c = isinstance(b.get("columns"), Num) and nf_equal(b["columns"].nf, app("columns", sym("X")))
            want_owner = {"PELT": "ChangeDetector", "CAPA": "CollectiveAnomalyDetector", "MVCAPA": "SubsetCollectiveAnomalyDetector"}[name]
            ctx.check(ok_y and ok_i and ok_c and sd[0].data["owner"] == want_owner and p.value is not None and valkey(p.value) == "opq:dense", rule, name, sd[0].loc(), f"transform(X) == {want_owner}.sparse_to_dense(predict(X), DataFrame(X).index, DataFrame(X).columns)", found={k: valkey(v)[:40] for k, v in b.items()})
