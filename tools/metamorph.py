#!/venv/bin/python
"""Metamorphic robustness test of the checks: semantics-preserving AST rewrites of one source file at a time.

For every non-test module of /repo and every transform T below, a scratch copy of the package is made, the module is
rewritten by T (ast -> ast -> ast.unparse), and ALL 18 property checks are run against the copy.  Every check must
still exit 0 (KNOWN-FINDING lines allowed): a harmless rewrite must neither alarm (exit 1) nor leave the analysed
subset (exit 2).  Nothing under /repo or /verif is written; scratch copies live in a temp dir and are removed.

usage: metamorph.py [--jobs N] [--only-file SUBSTR] [--only-transform NAME] [--props C01 C02 ...]

Transforms (each is exact for Python/NumPy semantics, including floating point):
  T0 reprint        ast.unparse only (formatting, comments dropped)
  T1 mult-swap      a * b -> b * a            (scalars, arrays, and list * int are all commutative)
  T2 cmp-flip       a < b -> b > a            (single-operator comparisons, all six ordering/equality operators)
  T3 rename-locals  every local variable v of a function -> v_mm   (parameters, globals, attributes untouched)
  T4 return-temp    return e -> _mm_ret = e; return _mm_ret
  T5 if-swap        if c: A else: B -> if not c: B else: A        (only when both arms are present and no elif)
  T6 add-swap       a + b -> b + a            (only when an operand is visibly numeric: list/str + is not commutative)
  T7 shape-len      E.shape[0] -> len(E)
  T8 chain-split    a <= x <= b -> a <= x and x <= b      (pure x)
  T9 else-wrap      if c: ...; return A  REST -> if c: ...; return A else: REST
  T10 else-unwrap   the converse
  T11 try-finally   function body -> try: body finally: pass
  T12 nullcontext   function body -> with contextlib.nullcontext(): body
  T13 assert-inject always-true isinstance assertions on the parameters, a dummy local that is deleted again
  T14 log-inject    logging.getLogger(__name__).debug(...) at the function start
  T15 if-true       function body -> if True: body
  T16 listcomp-loop v = [e for t in it if c] -> v = []; for t in it: if c: v.append(e)
  T17 ifexp-stmt    v = a if c else b -> if c: v = a else: v = b
  T18 aug-plain     n += e -> n = n + e  for visibly integer counters
"""
from __future__ import annotations

import argparse
import ast
import copy
import os
import shutil
import subprocess
import sys
import tempfile
import time
from concurrent.futures import ThreadPoolExecutor

VERIF = os.path.dirname(os.path.dirname(os.path.abspath(__file__)))
sys.path.insert(0, VERIF)
from skverif.selftest import copy_pkg  # noqa: E402

ALL_PROPS = [f"C{i:02d}" for i in range(1, 19)]


# ----------------------------------------------------------------------------- transforms


class MultSwap(ast.NodeTransformer):
    def visit_BinOp(self, node):
        self.generic_visit(node)
        if isinstance(node.op, ast.Mult) and _pure(node.left) and _pure(node.right):
            node.left, node.right = node.right, node.left
        return node


PURE_CALLS = {"len", "int", "float", "abs", "min", "max", "range", "bool"}
PURE_NP = {"log", "sqrt", "exp", "sum", "abs", "zeros", "ones", "arange", "cumsum", "diff", "maximum", "minimum", "argmax", "argmin", "max", "min", "mean", "round", "ceil", "floor", "log2", "repeat", "array", "asarray", "all", "any", "where", "flatnonzero", "concatenate", "column_stack", "full", "isnan", "eye", "square", "power"}


def _pure(e):
    """no side effects and no evaluation-order dependence: names, constants, attributes, subscripts, arithmetic and
    calls of side-effect-free builtins / numpy functions"""
    for n in ast.walk(e):
        if isinstance(n, ast.Call):
            f = n.func
            ok = (isinstance(f, ast.Name) and f.id in PURE_CALLS) or (isinstance(f, ast.Attribute) and isinstance(f.value, ast.Name) and f.value.id == "np" and f.attr in PURE_NP)
            if not ok:
                return False
        if isinstance(n, (ast.Await, ast.Yield, ast.YieldFrom, ast.NamedExpr, ast.Lambda, ast.ListComp, ast.GeneratorExp, ast.DictComp, ast.SetComp)):
            return False
    return True


def _numeric_looking(e):
    """an operand that cannot be a list/tuple/str: a numeric literal, a negation, or arithmetic other than +"""
    if isinstance(e, ast.Constant):
        return isinstance(e.value, (int, float)) and not isinstance(e.value, bool)
    if isinstance(e, ast.UnaryOp) and isinstance(e.op, ast.USub):
        return True
    if isinstance(e, ast.BinOp) and isinstance(e.op, (ast.Sub, ast.Div, ast.Pow, ast.FloorDiv, ast.Mod)):
        return True
    if isinstance(e, ast.Call) and isinstance(e.func, ast.Attribute) and isinstance(e.func.value, ast.Name) and e.func.value.id == "np" and e.func.attr in ("log", "sqrt", "exp", "sum", "abs", "log2"):
        return True
    if isinstance(e, ast.Call) and isinstance(e.func, ast.Name) and e.func.id in ("len", "int", "float", "abs"):
        return True
    return False


class AddSwap(ast.NodeTransformer):
    """a + b -> b + a where an operand is visibly numeric (list/str concatenation is not commutative)"""

    def visit_BinOp(self, node):
        self.generic_visit(node)
        if isinstance(node.op, ast.Add) and _pure(node.left) and _pure(node.right) and (_numeric_looking(node.left) or _numeric_looking(node.right)):
            node.left, node.right = node.right, node.left
        return node


class ShapeLen(ast.NodeTransformer):
    """E.shape[0] -> len(E)   (ndarray, Series and DataFrame alike)"""

    def visit_Subscript(self, node):
        self.generic_visit(node)
        if isinstance(node.value, ast.Attribute) and node.value.attr == "shape" and isinstance(node.slice, ast.Constant) and node.slice.value == 0 and isinstance(node.ctx, ast.Load) and _pure(node.value.value):
            return ast.Call(func=ast.Name(id="len", ctx=ast.Load()), args=[node.value.value], keywords=[])
        return node


class ChainSplit(ast.NodeTransformer):
    """a <= x <= b -> a <= x and x <= b   (x evaluated twice: only for pure x)"""

    def visit_Compare(self, node):
        self.generic_visit(node)
        if len(node.ops) == 2 and all(_pure(c) for c in [node.left] + node.comparators):
            a, x, b = node.left, node.comparators[0], node.comparators[1]
            return ast.BoolOp(op=ast.And(), values=[ast.Compare(left=a, ops=[node.ops[0]], comparators=[x]), ast.Compare(left=copy.deepcopy(x), ops=[node.ops[1]], comparators=[b])])
        return node


def _ends_in_jump(body):
    return bool(body) and isinstance(body[-1], (ast.Return, ast.Raise, ast.Continue, ast.Break))


class ElseWrap(ast.NodeTransformer):
    """if c: ...; return A   followed by REST   ->   if c: ...; return A  else: REST"""

    def _block(self, body):
        out = []
        for i, st in enumerate(body):
            if isinstance(st, ast.If) and not st.orelse and _ends_in_jump(st.body) and i + 1 < len(body):
                st.orelse = self._block(body[i + 1:])
                out.append(st)
                return out
            out.append(st)
        return out

    def generic_visit(self, node):
        super().generic_visit(node)
        for f in ("body", "orelse", "finalbody"):
            b = getattr(node, f, None)
            if isinstance(b, list) and b and isinstance(b[0], ast.stmt):
                setattr(node, f, self._block(b))
        return node


class ElseUnwrap(ast.NodeTransformer):
    """if c: ...; return A  else: REST   ->   if c: ...; return A   followed by REST"""

    def _block(self, body):
        out = []
        for st in body:
            if isinstance(st, ast.If) and st.orelse and _ends_in_jump(st.body) and not (len(st.orelse) == 1 and isinstance(st.orelse[0], ast.If) and False):
                rest = st.orelse
                st.orelse = []
                out.append(st)
                out.extend(self._block(rest))
            else:
                out.append(st)
        return out

    def generic_visit(self, node):
        super().generic_visit(node)
        for f in ("body", "orelse", "finalbody"):
            b = getattr(node, f, None)
            if isinstance(b, list) and b and isinstance(b[0], ast.stmt):
                setattr(node, f, self._block(b))
        return node


FLIP = {ast.Lt: ast.Gt, ast.Gt: ast.Lt, ast.LtE: ast.GtE, ast.GtE: ast.LtE, ast.Eq: ast.Eq, ast.NotEq: ast.NotEq}


class CmpFlip(ast.NodeTransformer):
    def visit_Compare(self, node):
        self.generic_visit(node)
        if len(node.ops) == 1 and type(node.ops[0]) in FLIP and _pure(node.left) and _pure(node.comparators[0]):
            # `x == None`-style or array-vs-scalar comparisons are symmetric as well (numpy implements the reflected operators)
            # keep string/None/bool literal comparisons untouched: harmless but pointless
            l, r = node.left, node.comparators[0]
            if isinstance(r, ast.Constant) and isinstance(r.value, (str, type(None), bool)):
                return node
            node.left, node.comparators, node.ops = r, [l], [FLIP[type(node.ops[0])]()]
        return node


class ReturnTemp(ast.NodeTransformer):
    def visit_FunctionDef(self, node):
        self.generic_visit(node)
        node.body = self._block(node.body)
        return node

    def _block(self, body):
        out = []
        for st in body:
            for f in ("body", "orelse", "finalbody"):
                if hasattr(st, f) and isinstance(getattr(st, f), list) and not isinstance(st, (ast.FunctionDef, ast.ClassDef, ast.AsyncFunctionDef)):
                    setattr(st, f, self._block(getattr(st, f)))
            if isinstance(st, ast.Try):
                for h in st.handlers:
                    h.body = self._block(h.body)
            if isinstance(st, ast.Return) and st.value is not None and not isinstance(st.value, (ast.Name, ast.Constant)):
                out.append(ast.Assign(targets=[ast.Name(id="_mm_ret", ctx=ast.Store())], value=st.value, lineno=st.lineno))
                out.append(ast.Return(value=ast.Name(id="_mm_ret", ctx=ast.Load())))
            else:
                out.append(st)
        return out


class IfSwap(ast.NodeTransformer):
    def visit_If(self, node):
        self.generic_visit(node)
        if node.orelse and not (len(node.orelse) == 1 and isinstance(node.orelse[0], ast.If)):
            node.test = ast.UnaryOp(op=ast.Not(), operand=node.test)
            node.body, node.orelse = node.orelse, node.body
        return node

    def visit_IfExp(self, node):
        self.generic_visit(node)
        node.test = ast.UnaryOp(op=ast.Not(), operand=node.test)
        node.body, node.orelse = node.orelse, node.body
        return node


class RenameLocals(ast.NodeTransformer):
    """rename the local variables of every function that has no nested function/lambda/class (closures make the
    scoping argument longer than this tool wants to be)"""

    def visit_FunctionDef(self, node):
        nested = [n for n in ast.walk(node) if n is not node and isinstance(n, (ast.FunctionDef, ast.AsyncFunctionDef, ast.Lambda, ast.ClassDef))]
        if nested:
            self.generic_visit(node)
            return node
        params = {a.arg for a in node.args.args + node.args.kwonlyargs + node.args.posonlyargs}
        if node.args.vararg:
            params.add(node.args.vararg.arg)
        if node.args.kwarg:
            params.add(node.args.kwarg.arg)
        declared = set()
        for n in ast.walk(node):
            if isinstance(n, (ast.Global, ast.Nonlocal)):
                declared |= set(n.names)
        stored = set()
        for n in ast.walk(node):
            if isinstance(n, ast.Name) and isinstance(n.ctx, (ast.Store, ast.Del)):
                stored.add(n.id)
            if isinstance(n, (ast.Import, ast.ImportFrom)):
                for a in n.names:
                    stored.discard((a.asname or a.name).split(".")[0])
                    declared.add((a.asname or a.name).split(".")[0])
        locs = {v for v in stored if v not in params and v not in declared and not v.startswith("__")}
        if not locs:
            return node
        for n in ast.walk(node):
            if isinstance(n, ast.Name) and n.id in locs:
                n.id = n.id + "_mm"
        return node


def _is_doc(st):
    return isinstance(st, ast.Expr) and isinstance(st.value, ast.Constant) and isinstance(st.value.value, str)


def _is_generator(node):
    return any(isinstance(n, (ast.Yield, ast.YieldFrom)) for n in ast.walk(node))


class _BodyRewriter(ast.NodeTransformer):
    """apply self.rewrite(body_without_docstring, node) to every function body (not to generators, not to stubs)"""

    def visit_FunctionDef(self, node):
        self.generic_visit(node)
        if _is_generator(node):
            return node
        doc = node.body[:1] if node.body and _is_doc(node.body[0]) else []
        rest = node.body[len(doc):]
        if not rest or all(isinstance(st, (ast.Pass, ast.Raise)) or _is_doc(st) for st in rest):
            return node
        node.body = doc + self.rewrite(rest, node)
        return node


class TryFinallyWrap(_BodyRewriter):
    """body -> try: body finally: pass"""

    def rewrite(self, body, node):
        return [ast.Try(body=body, handlers=[], orelse=[], finalbody=[ast.Pass()])]


class NullContextWrap(_BodyRewriter):
    """body -> with contextlib.nullcontext(): body   (import added inside the function: exact no-op)"""

    def rewrite(self, body, node):
        imp = ast.ImportFrom(module="contextlib", names=[ast.alias(name="nullcontext", asname="_mm_nullcontext")], level=0)
        w = ast.With(items=[ast.withitem(context_expr=ast.Call(func=ast.Name(id="_mm_nullcontext", ctx=ast.Load()), args=[], keywords=[]), optional_vars=None)], body=body)
        return [imp, w]


class AssertInject(_BodyRewriter):
    """an always-true assertion about each parameter and a dummy local that is deleted again, at the function start"""

    def rewrite(self, body, node):
        pre = []
        for a in node.args.args[:3]:
            if a.arg in ("self", "cls"):
                continue
            pre.append(ast.Assert(test=ast.Call(func=ast.Name(id="isinstance", ctx=ast.Load()), args=[ast.Name(id=a.arg, ctx=ast.Load()), ast.Name(id="object", ctx=ast.Load())], keywords=[]), msg=None))
        pre.append(ast.Assign(targets=[ast.Name(id="_mm_dummy", ctx=ast.Store())], value=ast.Constant(value=None), lineno=node.lineno))
        pre.append(ast.Delete(targets=[ast.Name(id="_mm_dummy", ctx=ast.Del())]))
        return pre + body


class LogInject(_BodyRewriter):
    """logging.getLogger(__name__).debug("...", <first parameter>) at the function start (no handler: no output)"""

    def rewrite(self, body, node):
        imp = ast.Import(names=[ast.alias(name="logging", asname="_mm_logging")])
        args = [ast.Constant(value="enter %s")]
        args.append(ast.Constant(value=node.name))
        call = ast.Expr(value=ast.Call(func=ast.Attribute(value=ast.Call(func=ast.Attribute(value=ast.Name(id="_mm_logging", ctx=ast.Load()), attr="getLogger", ctx=ast.Load()), args=[ast.Name(id="__name__", ctx=ast.Load())], keywords=[]), attr="debug", ctx=ast.Load()), args=args, keywords=[]))
        return [imp, call] + body


class IfTrueWrap(_BodyRewriter):
    """body -> if True: body"""

    def rewrite(self, body, node):
        return [ast.If(test=ast.Constant(value=True), body=body, orelse=[])]


class _StmtExpander(ast.NodeTransformer):
    """rewrite statements inside function bodies: expand(stmt) -> list of statements or None"""

    def _block(self, body):
        out = []
        for st in body:
            r = self.expand(st)
            if r is None:
                out.append(st)
            else:
                out.extend(r)
        return out

    def generic_visit(self, node):
        super().generic_visit(node)
        for f in ("body", "orelse", "finalbody"):
            b = getattr(node, f, None)
            if isinstance(b, list) and b and isinstance(b[0], ast.stmt) and not isinstance(node, (ast.Module, ast.ClassDef)):
                setattr(node, f, self._block(b))
        return node


class ListCompToLoop(_StmtExpander):
    """v = [elem for t in it if c]  ->  v = []; for t in it: if c: v.append(elem)
    (single generator, simple Name target that the element / iterable / conditions do not mention)"""

    def expand(self, st):
        if not (isinstance(st, ast.Assign) and len(st.targets) == 1 and isinstance(st.targets[0], ast.Name) and isinstance(st.value, ast.ListComp) and len(st.value.generators) == 1):
            return None
        g = st.value.generators[0]
        if g.is_async:
            return None
        name = st.targets[0].id
        used = {n.id for n in ast.walk(st.value) if isinstance(n, ast.Name)}
        if name in used:
            return None
        app = ast.Expr(value=ast.Call(func=ast.Attribute(value=ast.Name(id=name, ctx=ast.Load()), attr="append", ctx=ast.Load()), args=[st.value.elt], keywords=[]))
        inner = [app]
        for c in reversed(g.ifs):
            inner = [ast.If(test=c, body=inner, orelse=[])]
        loop = ast.For(target=g.target, iter=g.iter, body=inner, orelse=[])
        init = ast.Assign(targets=[ast.Name(id=name, ctx=ast.Store())], value=ast.List(elts=[], ctx=ast.Load()), lineno=st.lineno)
        return [init, loop]


class IfExpToStmt(_StmtExpander):
    """v = a if c else b  ->  if c: v = a else: v = b      (simple Name target)"""

    def expand(self, st):
        if not (isinstance(st, ast.Assign) and len(st.targets) == 1 and isinstance(st.targets[0], ast.Name) and isinstance(st.value, ast.IfExp)):
            return None
        t = st.targets[0].id
        mk = lambda v: ast.Assign(targets=[ast.Name(id=t, ctx=ast.Store())], value=v, lineno=st.lineno)  # noqa: E731
        return [ast.If(test=st.value.test, body=[mk(st.value.body)], orelse=[mk(st.value.orelse)])]


class AugToPlain(_StmtExpander):
    """n += e -> n = n + e   only for names that are visibly integer counters (initialised with an int literal in the same
    function and never subscripted): in-place and rebinding agree for immutable numbers"""

    def visit_FunctionDef(self, node):
        ints = set()
        for n in ast.walk(node):
            if isinstance(n, ast.Assign) and len(n.targets) == 1 and isinstance(n.targets[0], ast.Name) and isinstance(n.value, ast.Constant) and isinstance(n.value.value, int) and not isinstance(n.value.value, bool):
                ints.add(n.targets[0].id)
        for n in ast.walk(node):
            if isinstance(n, ast.Subscript) and isinstance(n.value, ast.Name):
                ints.discard(n.value.id)
            if isinstance(n, ast.Assign) and len(n.targets) == 1 and isinstance(n.targets[0], ast.Name) and not (isinstance(n.value, ast.Constant) and isinstance(n.value.value, int)) and not isinstance(n.value, ast.BinOp):
                ints.discard(n.targets[0].id)
        self._ints = ints
        return self.generic_visit(node)

    def expand(self, st):
        if isinstance(st, ast.AugAssign) and isinstance(st.target, ast.Name) and st.target.id in getattr(self, "_ints", ()) and isinstance(st.op, (ast.Add, ast.Sub)):
            return [ast.Assign(targets=[ast.Name(id=st.target.id, ctx=ast.Store())], value=ast.BinOp(left=ast.Name(id=st.target.id, ctx=ast.Load()), op=st.op, right=st.value), lineno=st.lineno)]
        return None


TRANSFORMS = {
    "T0-reprint": None,
    "T1-mult-swap": MultSwap,
    "T2-cmp-flip": CmpFlip,
    "T3-rename-locals": RenameLocals,
    "T4-return-temp": ReturnTemp,
    "T5-if-swap": IfSwap,
    "T6-add-swap": AddSwap,
    "T7-shape-len": ShapeLen,
    "T8-chain-split": ChainSplit,
    "T9-else-wrap": ElseWrap,
    "T10-else-unwrap": ElseUnwrap,
    "T11-try-finally": TryFinallyWrap,
    "T12-nullcontext": NullContextWrap,
    "T13-assert-inject": AssertInject,
    "T14-log-inject": LogInject,
    "T15-if-true": IfTrueWrap,
    "T16-listcomp-loop": ListCompToLoop,
    "T17-ifexp-stmt": IfExpToStmt,
    "T18-aug-plain": AugToPlain,
}


def transform_source(src, tname):
    tree = ast.parse(src)
    T = TRANSFORMS[tname]
    if T is not None:
        tree = T().visit(copy.deepcopy(tree))
        ast.fix_missing_locations(tree)
    out = ast.unparse(tree) + "\n"
    compile(out, "<mm>", "exec")
    return out


# ----------------------------------------------------------------------------- runner


def run_variant(repo, rel, tname, props):
    tmp = tempfile.mkdtemp(prefix="skverif_mm_")
    try:
        copy_pkg(repo, tmp)
        path = os.path.join(tmp, rel)
        src = open(path).read()
        try:
            new = transform_source(src, tname)
        except Exception as e:  # noqa: BLE001
            return rel, tname, {"_transform": (3, repr(e))}
        if tname != "T0-reprint" and new == transform_source(src, "T0-reprint"):
            return rel, tname, None  # transform does not apply to this file
        open(path, "w").write(new)
        res = {}
        for p in props:
            env = dict(os.environ, SKVERIF_EVIDENCE_DIR=os.path.join(tmp, "_ev"), PYTHONPATH=VERIF)
            r = subprocess.run([sys.executable, "-m", "skverif", "check", p, "--tier", "quick", "--repo", tmp], capture_output=True, text=True, env=env, cwd=VERIF, timeout=900)
            if r.returncode != 0:
                lines = [l for l in (r.stdout + r.stderr).splitlines() if "VIOLATION:" in l or "ANALYSIS-ERROR" in l]
                res[p] = (r.returncode, lines[:3])
        return rel, tname, res
    finally:
        shutil.rmtree(tmp, ignore_errors=True)


def main():
    ap = argparse.ArgumentParser()
    ap.add_argument("--repo", default="/repo")
    ap.add_argument("--jobs", type=int, default=16)
    ap.add_argument("--only-file", default=None)
    ap.add_argument("--only-transform", default=None)
    ap.add_argument("--props", nargs="*", default=ALL_PROPS)
    ap.add_argument("--dump", default=None, help="write the transformed source of --only-file/--only-transform to this path and exit")
    a = ap.parse_args()
    files = []
    for dp, dn, fn in os.walk(os.path.join(a.repo, "skchange")):
        dn[:] = [d for d in dn if d not in ("tests", "__pycache__")]
        for f in fn:
            if f.endswith(".py"):
                rel = os.path.relpath(os.path.join(dp, f), a.repo)
                if a.only_file is None or a.only_file in rel:
                    files.append(rel)
    tnames = [t for t in TRANSFORMS if a.only_transform is None or a.only_transform in t]
    if a.dump:
        open(a.dump, "w").write(transform_source(open(os.path.join(a.repo, files[0])).read(), tnames[0]))
        return 0
    jobs = [(rel, t) for rel in sorted(files) for t in tnames]
    t0 = time.time()
    bad = 0
    n = 0
    with ThreadPoolExecutor(max_workers=a.jobs) as pool:
        for rel, t, res in pool.map(lambda j: run_variant(a.repo, j[0], j[1], a.props), jobs):
            if res is None:
                continue
            n += 1
            if res:
                bad += 1
                print(f"ALARM {t} {rel}: { {p: rc for p, (rc, _) in res.items()} }")
                for p, (rc, lines) in res.items():
                    for l in lines[:2]:
                        print(f"     {p} {l[:260]}")
    print(f"[metamorph] files={len(files)} transforms={len(tnames)} variants={n} alarms={bad} wall={time.time() - t0:.0f}s")
    return 2 if bad else 0


if __name__ == "__main__":
    sys.exit(main())
