#!/venv/bin/python
"""Regenerate MANIFEST.json from the rule modules that exist (keeps it valid at all times)."""
import importlib
import json
import os
import subprocess
import sys

VERIF = os.path.dirname(os.path.dirname(os.path.abspath(__file__)))
sys.path.insert(0, VERIF)
props = [json.loads(l) for l in open(os.path.join(VERIF, "properties.jsonl"))]
checks, na = [], []
for p in props:
    pid = p["id"]
    try:
        mod = importlib.import_module(f"skverif.rules.{pid.lower()}")
    except ModuleNotFoundError:
        na.append({"property_id": pid, "reason": "static check under construction (DESIGN.md §8.1 build order); not yet claimed"})
        continue
    if getattr(mod, "NOT_APPLICABLE", None):
        na.append({"property_id": pid, "reason": mod.NOT_APPLICABLE})
        continue
    checks.append({
        "property_id": pid,
        "quick_cmd": f"/venv/bin/python -m skverif check {pid} --tier quick",
        "thorough_cmd": f"/venv/bin/python -m skverif check {pid} --tier thorough",
        "evidence_file": f"/verif/evidence/{pid}.json",
        "replay_cmd_template": "cat {path}",
        "engine": "skverif",
        "level_claimed": {"category": "other", "text": mod.LEVEL_TEXT if hasattr(mod, "LEVEL_TEXT") else mod.EXPLANATION, "design_ref": f"DESIGN.md §5 {pid}"},
        "level_note": "; ".join(mod.ASSUMPTIONS),
        "technique": getattr(mod, "TECHNIQUE", "static analysis: abstract interpretation of the AST into rational normal forms compared with a specification, plus dataflow/dominance rules"),
    })
fixes = subprocess.run(["git", "-C", "/repo", "log", "--format=%h %s", "--reverse"], capture_output=True, text=True).stdout.splitlines()
fixes = [l.split()[0] for l in fixes if l.split(" ", 1)[1].startswith("fix:")]
m = {
    "version": 1,
    "setup_cmd": "/venv/bin/python -m compileall -q /verif/skverif",
    "hooks": {
        "guard": "SKCHANGE_VERIF",
        "enable": "static analysis needs no instrumentation: the checks parse /repo's working tree and import nothing from it; no guarded hook commit exists (source_commits lists the unguarded fix: commits)",
        "baseline_off_cmd": "cd /repo && /venv/bin/python -m pytest -ra -q -p no:cacheprovider --timeout=900 --continue-on-collection-errors",
        "source_commits": fixes,
        "add_only": False,
    },
    "engines": [{"name": "skverif", "path": "/verif/skverif", "serves_properties": [c["property_id"] for c in checks], "kind_free_text": "repository-specific static analyser (stdlib ast): program index + resolver, symbolic executor to rational normal forms with symbolic shapes, affine/dominance/effect/kind rules; specs in /verif/spec; self-test with seeded variants"}],
    "checks": checks,
    "notes": "All checks: exit 0 = every obligation holds (or only listed KNOWN-FINDINGs), 1 = unlisted VIOLATION, 2 = ANALYSIS-ERROR (construct outside the analysed fragment / vanished anchor / self-test failure). See DESIGN.md.",
    "not_applicable": na,
}
json.dump(m, open(os.path.join(VERIF, "MANIFEST.json"), "w"), indent=1)
print("checks:", [c["property_id"] for c in checks], "n/a:", len(na))
