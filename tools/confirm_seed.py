#!/venv/bin/python
"""Confirm a seeded change in a scratch worktree and run the /verif checks against it.

usage: confirm_seed.py <seed_dir> <worktree> <PROP> [<PROP>...]
Writes <seed_dir>/confirm.json ; never touches /repo except apply+checkout around the checks.
"""
import json
import os
import subprocess
import sys
import xml.etree.ElementTree as ET

NO_REPO = "--no-repo" in sys.argv  # confirm in the worktree only (the checks are then run by a second call / recheck_seeds)
ONLY_REPO = "--only-repo" in sys.argv  # the worktree part was done before: only run the checks against /repo
_argv = [a for a in sys.argv[1:] if a not in ("--no-repo", "--only-repo")]
seed, wt, props = _argv[0], _argv[1], _argv[2:]
PY = "/venv/bin/python"
NPROC = os.environ.get("SKVERIF_PYTEST_N", "8")


def sh(cmd, cwd=None, timeout=1800):
    r = subprocess.run(cmd, shell=True, cwd=cwd, capture_output=True, text=True, timeout=timeout)
    return r.returncode, r.stdout + r.stderr


out = {"seed": seed, "props": props}
if ONLY_REPO:
    out = json.load(open(f"{seed}/confirm.json"))
    out["props"] = props
else:
    assert sh("git status --short", wt)[1].strip() == "", "worktree not clean"
    rc, o = sh(f"git apply {seed}/patch.diff", wt)
    assert rc == 0, o
try:
  if not ONLY_REPO:
      rc, o = sh(f"{PY} -m compileall -q skchange", wt)
      out["compiles"] = rc == 0
      rc, o = sh(f"PYTHONPATH={wt} {PY} {seed}/demo.py", wt)
      out["demo_with_change_rc"] = rc
      junit = f"/tmp/scratch/junit_{os.path.basename(seed)}.xml"
      rc, o = sh(f"{PY} -m pytest -q -p no:cacheprovider -n {NPROC} --junitxml={junit} 2>&1 | tail -3", wt)
      out["pytest_tail"] = o.strip().splitlines()[-1] if o.strip() else ""
      b = json.load(open("/root/.vp/BASELINE.json"))
      res = {}
      for tc in ET.parse(junit).iter("testcase"):
          name = tc.get("classname") + "::" + tc.get("name")
          st = "pass"
          for ch in tc:
              if ch.tag in ("failure", "error"):
                  st = "fail"
              elif ch.tag == "skipped":
                  st = "skip"
          res[name] = st
      miss = [k for k in b["stable_pass"] if res.get(k) != "pass"]
      out["stable_pass_broken"] = miss[:5]
      out["suite_ok"] = not miss
finally:
    if not ONLY_REPO:
        sh("git checkout -- .", wt)
if not ONLY_REPO:
    rc, o = sh(f"PYTHONPATH={wt} {PY} {seed}/demo.py", wt)
    out["demo_clean_rc"] = rc
if NO_REPO:
    out["checks"] = {}
    out["confirmed"] = bool(out["compiles"] and out["demo_with_change_rc"] != 0 and out["demo_clean_rc"] == 0 and out["suite_ok"])
    out["detected"] = False
    json.dump(out, open(f"{seed}/confirm.json", "w"), indent=1)
    print(json.dumps({k: out[k] for k in ("confirmed", "pytest_tail", "demo_with_change_rc", "demo_clean_rc")}))
    sys.exit(0)
# run the checks against /repo with the patch applied
assert sh("git status --short", "/repo")[1].strip() == "", "/repo not clean"
rc, o = sh(f"git apply {seed}/patch.diff", "/repo")
assert rc == 0, o
try:
    det = {}
    for p in props:
        env = "SKVERIF_EVIDENCE_DIR=/tmp/scratch/ev_seed"
        rc, o = sh(f"{env} {PY} -m skverif check {p} --tier quick", "/verif")
        det[p] = {"exit": rc, "lines": [l[:260] for l in o.splitlines() if "VIOLATION:" in l or "ANALYSIS-ERROR" in l][:4]}
    out["checks"] = det
finally:
    sh("git checkout -- .", "/repo")
out["confirmed"] = bool(out["compiles"] and out["demo_with_change_rc"] != 0 and out["demo_clean_rc"] == 0 and out["suite_ok"])
out["detected"] = any(d["exit"] == 1 for d in out.get("checks", {}).values())
json.dump(out, open(f"{seed}/confirm.json", "w"), indent=1)
print(json.dumps({k: out[k] for k in ("confirmed", "detected", "pytest_tail", "demo_with_change_rc", "demo_clean_rc")}))
for p, d in out.get("checks", {}).items():
    print(" ", p, d["exit"], *d["lines"][:2], sep="\n    ")
