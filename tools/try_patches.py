#!/venv/bin/python
"""Run all 18 checks against candidate patches (directories holding a patch.diff), each applied to its own scratch copy
of /repo's HEAD package - /repo itself is never touched.  Prints, per patch, which checks report a VIOLATION (exit 1),
which answer ANALYSIS-ERROR (exit 2) and the first report lines.

usage: try_patches.py [--jobs N] [--lines K] [--checks C01,C02] DIR [DIR ...]
"""
from __future__ import annotations

import argparse
import os
import shutil
import subprocess
import sys
import tempfile
from concurrent.futures import ThreadPoolExecutor

VERIF = os.path.dirname(os.path.dirname(os.path.abspath(__file__)))
ALL = [f"C{i:02d}" for i in range(1, 19)]
PY = "/venv/bin/python"
ONLY: list = []


def one(d):
    tmp = tempfile.mkdtemp(prefix="skverif_try_")
    try:
        subprocess.run(f"git -C /repo archive HEAD skchange | tar -x -C {tmp}", shell=True, check=True)
        r = subprocess.run(["patch", "-p1", "-s", "-f", "--no-backup-if-mismatch", "-i", os.path.join(d, "patch.diff")], cwd=tmp, capture_output=True, text=True)
        if r.returncode != 0:
            return d, None, "patch does not apply: " + (r.stdout + r.stderr)[:200]
        det = {}
        for p in (ONLY or ALL):
            env = dict(os.environ, SKVERIF_EVIDENCE_DIR=os.path.join(tmp, "_ev"), PYTHONPATH=VERIF)
            c = subprocess.run([PY, "-m", "skverif", "check", p, "--tier", "quick", "--repo", tmp], capture_output=True, text=True, env=env, cwd=VERIF, timeout=1800)
            if c.returncode != 0:
                rep = [l.strip()[:300] for l in c.stdout.splitlines() if (" - VIOLATION:" in l or "ANALYSIS-ERROR" in l) and not l.startswith(" ")]
                det[p] = (c.returncode, rep)
        return d, det, None
    finally:
        shutil.rmtree(tmp, ignore_errors=True)


def main():
    ap = argparse.ArgumentParser()
    ap.add_argument("--jobs", type=int, default=8)
    ap.add_argument("--lines", type=int, default=2)
    ap.add_argument("--checks", default="", help="comma-separated property ids (default: all 18)")
    ap.add_argument("dirs", nargs="+")
    a = ap.parse_args()
    ONLY[:] = [c for c in a.checks.split(",") if c]
    with ThreadPoolExecutor(max_workers=a.jobs) as pool:
        for d, det, err in pool.map(one, a.dirs):
            name = os.path.basename(d.rstrip("/"))
            if err:
                print(f"== {name}: {err}")
                continue
            fired = [p for p, (rc, _) in det.items() if rc == 1]
            und = [p for p, (rc, _) in det.items() if rc != 1]
            print(f"== {name}: fired={fired} undecided={und}")
            for p, (rc, rep) in det.items():
                for l in rep[: a.lines]:
                    print(f"     {p} {l}")


if __name__ == "__main__":
    sys.exit(main())
