#!/venv/bin/python
"""Apply a patch to /repo transiently, run property checks against it, undo it.

usage: try_patch.py <patch.diff> [all | PROP ...]   (default: all 18)
Prints one line per check: exit code and the first VIOLATION / ANALYSIS-ERROR lines.  /repo is always restored.
Used for (a) seeded breaking changes (some check must exit 1) and (b) behaviour-preserving refactorings written by
independent agents (every check must exit 0).
"""
import json
import os
import subprocess
import sys
from concurrent.futures import ThreadPoolExecutor

PY = "/venv/bin/python"
patch = os.path.abspath(sys.argv[1])
props = sys.argv[2:]
if not props or props == ["all"]:
    props = [f"C{i:02d}" for i in range(1, 19)]


def sh(cmd, cwd=None):
    r = subprocess.run(cmd, shell=True, cwd=cwd, capture_output=True, text=True, timeout=1800)
    return r.returncode, r.stdout + r.stderr


assert sh("git status --short", "/repo")[1].strip() == "", "/repo not clean"
rc, o = sh(f"git apply {patch}", "/repo")
assert rc == 0, o
res = {}
try:
    def one(p):
        ev = f"/tmp/scratch/ev_try/{p}"
        os.makedirs(ev, exist_ok=True)
        rc, o = sh(f"SKVERIF_EVIDENCE_DIR={ev} {PY} -m skverif check {p} --tier quick", "/verif")
        lines = [l for l in o.splitlines() if ("VIOLATION:" in l or "ANALYSIS-ERROR" in l or "UNDECIDED" in l)]
        return p, rc, lines[:3]

    with ThreadPoolExecutor(max_workers=9) as pool:
        for p, rc, lines in pool.map(one, props):
            res[p] = {"exit": rc, "lines": lines}
finally:
    sh("git checkout -- .", "/repo")
    assert sh("git status --short", "/repo")[1].strip() == "", "/repo not restored"
bad = {p: r for p, r in res.items() if r["exit"] != 0}
print(os.path.basename(os.path.dirname(patch)), "nonzero:", {p: r["exit"] for p, r in bad.items()})
for p, r in bad.items():
    for l in r["lines"]:
        print("   ", p, l[:300])
json.dump(res, open(os.path.join(os.path.dirname(patch), "try.json"), "w"), indent=1)
