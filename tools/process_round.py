#!/venv/bin/python
"""Confirm a batch of candidate seeded changes and run all 18 checks against each.

usage: process_round.py [--jobs N] [--skip-confirm] CAND_DIR [CAND_DIR ...]

Each CAND_DIR holds patch.diff, demo.py, notes.md (written by an independent sub-agent).  Phase A confirms each candidate
in its own scratch worktree of /repo's HEAD (tools/confirm_seed.py --no-repo: compiles, demo fails with the change and
passes without it, every stable_pass test of the baseline still passes); the worktree is removed afterwards.  Phase B
applies the patch to a scratch copy of the package and runs the 18 quick checks on it (as tools/try_patches.py does);
the result is written into CAND_DIR/confirm.json (`checks`, `detected`) in the form tools/keep_seed.py expects.
/repo's working tree is never touched.
"""
from __future__ import annotations

import argparse
import json
import os
import shutil
import subprocess
import sys
import tempfile
from concurrent.futures import ThreadPoolExecutor

VERIF = os.path.dirname(os.path.dirname(os.path.abspath(__file__)))
ALL = [f"C{i:02d}" for i in range(1, 19)]
PY = "/venv/bin/python"


def confirm(d):
    name = os.path.basename(d.rstrip("/"))
    wt = f"/tmp/scratch/cwt_{name}"
    subprocess.run(["git", "-C", "/repo", "worktree", "remove", "--force", wt], capture_output=True)
    shutil.rmtree(wt, ignore_errors=True)
    r = subprocess.run(["git", "-C", "/repo", "worktree", "add", "--detach", wt, "HEAD"], capture_output=True, text=True)
    if r.returncode != 0:
        return d, "worktree: " + r.stderr[:200]
    try:
        env = dict(os.environ, SKVERIF_PYTEST_N="4")
        r = subprocess.run([PY, os.path.join(VERIF, "tools/confirm_seed.py"), "--no-repo", d, wt, "C00"], capture_output=True, text=True, env=env, timeout=3600)
        return d, (r.stdout + r.stderr).strip()[-400:]
    finally:
        subprocess.run(["git", "-C", "/repo", "worktree", "remove", "--force", wt], capture_output=True)
        shutil.rmtree(wt, ignore_errors=True)


def checks(d):
    tmp = tempfile.mkdtemp(prefix="skverif_round_")
    try:
        subprocess.run(f"git -C /repo archive HEAD skchange | tar -x -C {tmp}", shell=True, check=True)
        r = subprocess.run(["patch", "-p1", "-s", "-f", "--no-backup-if-mismatch", "-i", os.path.join(d, "patch.diff")], cwd=tmp, capture_output=True, text=True)
        if r.returncode != 0:
            return d, None, "patch does not apply: " + (r.stdout + r.stderr)[:200]
        det = {}
        for p in ALL:
            env = dict(os.environ, SKVERIF_EVIDENCE_DIR=os.path.join(tmp, "_ev"), PYTHONPATH=VERIF)
            c = subprocess.run([PY, "-m", "skverif", "check", p, "--tier", "quick", "--repo", tmp], capture_output=True, text=True, env=env, cwd=VERIF, timeout=1800)
            if c.returncode != 0:
                rep = [l.strip()[:260] for l in c.stdout.splitlines() if (" - VIOLATION:" in l or "ANALYSIS-ERROR" in l) and "KNOWN" not in l and not l.startswith(" ")]
                det[p] = {"exit": c.returncode, "lines": rep[:4]}
        return d, det, None
    finally:
        shutil.rmtree(tmp, ignore_errors=True)


def main():
    ap = argparse.ArgumentParser()
    ap.add_argument("--jobs", type=int, default=5)
    ap.add_argument("--skip-confirm", action="store_true")
    ap.add_argument("dirs", nargs="+")
    a = ap.parse_args()
    dirs = [os.path.abspath(d) for d in a.dirs if os.path.exists(os.path.join(d, "patch.diff"))]
    os.makedirs("/tmp/scratch", exist_ok=True)
    if not a.skip_confirm:
        with ThreadPoolExecutor(max(1, a.jobs // 2)) as ex:
            for d, out in ex.map(confirm, dirs):
                print("[confirm]", os.path.basename(d), out.splitlines()[-1] if out else "", flush=True)
    with ThreadPoolExecutor(a.jobs) as ex:
        for d, det, err in ex.map(checks, dirs):
            name = os.path.basename(d)
            cp = os.path.join(d, "confirm.json")
            c = json.load(open(cp)) if os.path.exists(cp) else {"seed": d, "confirmed": False}
            if err:
                print("[checks]", name, err, flush=True)
                continue
            c["checks"] = det
            c["detected"] = any(v["exit"] == 1 for v in det.values())
            json.dump(c, open(cp, "w"), indent=1)
            fired = sorted(p for p, v in det.items() if v["exit"] == 1)
            und = sorted(p for p, v in det.items() if v["exit"] == 2)
            print(f"[checks] {name}: confirmed={c.get('confirmed')} fired={fired} undecided={und}", flush=True)
            for p in fired[:3]:
                for l in det[p]["lines"][:2]:
                    print("      ", p, l[:230], flush=True)
            if not fired:
                for p in und[:3]:
                    for l in det[p]["lines"][:2]:
                        print("      ", p, l[:230], flush=True)


if __name__ == "__main__":
    sys.exit(main())
