#!/venv/bin/python
"""Re-run all 18 checks against every kept seeded change and refresh `detection` / `detected_now` in its meta.json.

Each patch is applied to a scratch copy of the package taken from /repo's HEAD (never to /repo itself); the copy is removed
afterwards.  `detected_by_checks_at_first_try` and `strengthening` are history and are left alone.

usage: recheck_seeds.py [--jobs N] [--only ID ...] [--dry]
"""
from __future__ import annotations

import argparse
import glob
import json
import os
import shutil
import subprocess
import sys
import tempfile
from concurrent.futures import ThreadPoolExecutor

VERIF = os.path.dirname(os.path.dirname(os.path.abspath(__file__)))
ALL = [f"C{i:02d}" for i in range(1, 19)]
PY = "/venv/bin/python"


def one(seed_dir):
    meta_p = os.path.join(seed_dir, "meta.json")
    meta = json.load(open(meta_p))
    tmp = tempfile.mkdtemp(prefix="skverif_seed_")
    try:
        subprocess.run(f"git -C /repo archive HEAD skchange | tar -x -C {tmp}", shell=True, check=True)
        r = subprocess.run(["patch", "-p1", "-s", "-i", os.path.join(seed_dir, "patch.diff")], cwd=tmp, capture_output=True, text=True)
        if r.returncode != 0:
            return meta["id"], None, "patch does not apply: " + (r.stdout + r.stderr)[:200]
        det = {}
        for p in ALL:
            env = dict(os.environ, SKVERIF_EVIDENCE_DIR=os.path.join(tmp, "_ev"), PYTHONPATH=VERIF)
            c = subprocess.run([PY, "-m", "skverif", "check", p, "--tier", "quick", "--repo", tmp], capture_output=True, text=True, env=env, cwd=VERIF, timeout=1800)
            rep = [l.strip()[:260] for l in c.stdout.splitlines() if " - VIOLATION:" in l and "KNOWN" not in l and not l.startswith(" ")]
            if c.returncode == 0:
                rep = []
            det[p] = {"exit": c.returncode, "report": rep[:4]}
        return meta["id"], det, None
    finally:
        shutil.rmtree(tmp, ignore_errors=True)


def main():
    ap = argparse.ArgumentParser()
    ap.add_argument("--jobs", type=int, default=5)
    ap.add_argument("--only", nargs="*", default=None)
    ap.add_argument("--dry", action="store_true")
    a = ap.parse_args()
    dirs = sorted(os.path.dirname(m) for m in glob.glob(os.path.join(VERIF, "seeded", "*", "meta.json")))
    if a.only:
        dirs = [d for d in dirs if os.path.basename(d) in a.only]
    missed, own_missed = [], []
    with ThreadPoolExecutor(max_workers=a.jobs) as pool:
        for d, (sid, det, err) in zip(dirs, pool.map(one, dirs)):
            if err:
                print(f"{sid}: ERROR {err}")
                continue
            fired = [p for p, x in det.items() if x["exit"] == 1]
            und = [p for p, x in det.items() if x["exit"] not in (0, 1)]
            meta_p = os.path.join(d, "meta.json")
            meta = json.load(open(meta_p))
            own = meta["breaks_property"]
            print(f"{sid}: fired={fired} undecided={und}" + ("" if own in fired else f"   <-- own check {own} silent"))
            if not fired:
                missed.append(sid)
            if own not in fired:
                own_missed.append(sid)
            if not a.dry:
                # keep the property's own check first, then the others that say something
                keep = {own: det[own]}
                for p, x in det.items():
                    if p != own and x["exit"] != 0:
                        keep[p] = x
                meta["detection"] = keep
                meta["detected_now"] = bool(fired)
                json.dump(meta, open(meta_p, "w"), indent=1)
    print(f"[recheck] seeds={len(dirs)} not detected by any check: {missed or 'none'}; not detected by the property's own check: {own_missed or 'none'}")


if __name__ == "__main__":
    sys.exit(main())
