#!/venv/bin/python
"""Re-create one mutant of tools/mutate.py (by file, line, kind and optional before-text) in a scratch copy and run checks on it verbosely.
usage: mutant_one.py <relfile> <line> <kind> [--before TEXT] [--props C01 ...] [--keep DIR]"""
import argparse, ast, os, shutil, subprocess, sys, tempfile
VERIF = os.path.dirname(os.path.dirname(os.path.abspath(__file__)))
sys.path.insert(0, VERIF); sys.path.insert(0, os.path.join(VERIF, "tools"))
from skverif.selftest import copy_pkg
import mutate as M
ap = argparse.ArgumentParser(); ap.add_argument("file"); ap.add_argument("line", type=int); ap.add_argument("kind"); ap.add_argument("--before", default=None); ap.add_argument("--props", nargs="*", default=M.ALL); ap.add_argument("--nth", type=int, default=0)
a = ap.parse_args()
src = open(os.path.join("/repo", a.file)).read()
tree = ast.parse(src); nodes = list(ast.walk(tree))
c = [(k, i, ln) for k, i, ln in M.sites(tree) if ln == a.line and k == a.kind and (a.before is None or a.before in ast.unparse(nodes[i]))]
assert c, "no such site"
k, i, ln = c[a.nth]
tmp = tempfile.mkdtemp(prefix="skverif_m1_")
try:
    copy_pkg("/repo", tmp)
    new, before, after = M.mutate(src, k, i)
    print("MUTANT", a.file, ln, k, "|", before, "->", after, f"({len(c)} candidate sites)")
    open(os.path.join(tmp, a.file), "w").write(new)
    for p in a.props:
        env = dict(os.environ, SKVERIF_EVIDENCE_DIR=os.path.join(tmp, "_ev"), PYTHONPATH=VERIF)
        r = subprocess.run([sys.executable, "-m", "skverif", "check", p, "--tier", "quick", "--repo", tmp], capture_output=True, text=True, env=env, cwd=VERIF)
        lines = [l for l in r.stdout.splitlines() if "VIOLATION:" in l or "ANALYSIS-ERROR" in l]
        print(p, "exit", r.returncode, *[("\n    " + l[:230]) for l in lines[:3]])
finally:
    shutil.rmtree(tmp, ignore_errors=True)
