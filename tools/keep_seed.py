#!/venv/bin/python
"""Package a confirmed seeded change into /verif/seeded/<id>/ (patch.diff, demo.py, meta.json)."""
import json
import os
import shutil
import sys

src, prop, caught_before, note = sys.argv[1], sys.argv[2], sys.argv[3], (sys.argv[4] if len(sys.argv) > 4 else "")
sid = os.path.basename(src.rstrip("/"))
dst = f"/verif/seeded/{sid}"
os.makedirs(dst, exist_ok=True)
shutil.copy(f"{src}/patch.diff", f"{dst}/patch.diff")
shutil.copy(f"{src}/demo.py", f"{dst}/demo.py")
c = json.load(open(f"{src}/confirm.json"))
assert c["confirmed"], "not confirmed"
notes = open(f"{src}/notes.md").read() if os.path.exists(f"{src}/notes.md") else ""
meta = {
    "id": sid,
    "breaks_property": prop,
    "origin": "independent sub-agent given only the property text and a scratch worktree",
    "what_it_needs_to_manifest": notes.strip(),
    "confirmed_by": {
        "ran": [
            "git apply patch.diff in a scratch worktree of /repo HEAD; /venv/bin/python -m compileall skchange",
            "demo.py with the change (must exit non-zero) and on the clean worktree (must exit 0)",
            "full test suite in the worktree: every BASELINE stable_pass test still passes",
            "git -C /repo apply patch.diff; /venv/bin/python -m skverif check <prop> --tier quick; git -C /repo checkout -- .",
        ],
        "pytest_tail": c["pytest_tail"],
        "demo_with_change_rc": c["demo_with_change_rc"],
        "demo_clean_rc": c["demo_clean_rc"],
    },
    "detected_by_checks_at_first_try": caught_before == "yes",
    "detected_now": c["detected"],
    "detection": {p: {"exit": d["exit"], "report": d["lines"][:2]} for p, d in c["checks"].items()},
    "strengthening": note,
}
json.dump(meta, open(f"{dst}/meta.json", "w"), indent=1)
print("kept", dst, "detected_now=", c["detected"])
