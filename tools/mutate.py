#!/venv/bin/python
"""Mutation analysis of the CHECKS (not of the repository): how many small semantic edits of the property-anchored
source do the 18 static checks report?

One AST-level mutation per variant (comparison operators, arithmetic operators, integer constants +-1, and/or,
guard removal, negated conditions, min/max / argmin/argmax / any/all / ceil/floor / left/right swaps, swapped call
arguments, swapped return elements, deleted fit/append/augmented-assignment statements), applied to a scratch copy of the package; all 18 checks run against the copy.  Result per mutant:
  killed     some check exits 1 (VIOLATION)
  undecided  no check exits 1 but some check exits 2 (the edit left the analysed subset: flagged, not decided)
  survived   every check exits 0  -> either an equivalent / property-irrelevant mutant or a gap in the checks
Survivors are written to the output file for triage (optionally after running the repository's own test-suite on them
with --tests, which tells whether the existing tests would have caught the edit).

usage: mutate.py [--files SUBSTR ...] [--jobs N] [--out FILE] [--tests] [--limit N]
Nothing is written under /repo; scratch copies are removed.  Not part of any registered check.
"""
from __future__ import annotations

import argparse
import ast
import copy
import json
import os
import shutil
import subprocess
import sys
import tempfile
import time
from concurrent.futures import ThreadPoolExecutor

VERIF = os.path.dirname(os.path.dirname(os.path.abspath(__file__)))
sys.path.insert(0, VERIF)
from skverif.selftest import copy_pkg  # noqa: E402

ALL = [f"C{i:02d}" for i in range(1, 19)]
SKIP_FUNCS = {"get_test_params", "__repr__", "_more_tags"}
DEFAULT_FILES = [
    "costs/", "change_scores/", "anomaly_scores/", "change_detectors/", "anomaly_detectors/", "base/",
    "utils/numba/general.py", "utils/numba/stats.py", "utils/validation/", "datasets/generate.py",
]

NAME_SWAP = {"min": "max", "max": "min", "argmin": "argmax", "argmax": "argmin", "any": "all", "all": "any", "ceil": "floor", "floor": "ceil", "zeros": "ones", "minimum": "maximum", "maximum": "minimum", "cumsum": "cumprod"}
ATTR_SWAP = {"left": "right", "right": "left"}
CMP = {ast.Lt: ast.LtE, ast.LtE: ast.Lt, ast.Gt: ast.GtE, ast.GtE: ast.Gt, ast.Eq: ast.NotEq, ast.NotEq: ast.Eq}
BIN = {ast.Add: ast.Sub, ast.Sub: ast.Add, ast.Mult: ast.Div, ast.Div: ast.Mult}


def sites(tree):
    """yield (kind, node_path_index, description) for every mutation site; the index is the position in ast.walk order"""
    out = []
    in_skip = set()
    for n in ast.walk(tree):
        if isinstance(n, (ast.FunctionDef, ast.AsyncFunctionDef)) and n.name in SKIP_FUNCS:
            for m in ast.walk(n):
                in_skip.add(id(m))
    # nodes inside raise statements (messages) and docstrings are not semantic
    for n in ast.walk(tree):
        if isinstance(n, ast.Raise):
            for m in ast.walk(n):
                in_skip.add(id(m))
        if isinstance(n, (ast.JoinedStr,)):
            for m in ast.walk(n):
                in_skip.add(id(m))
        if isinstance(n, ast.AnnAssign) or isinstance(n, ast.arguments):
            for m in ast.walk(n):
                in_skip.add(id(m))
    for i, n in enumerate(ast.walk(tree)):
        if id(n) in in_skip:
            continue
        ln = getattr(n, "lineno", 0)
        if isinstance(n, ast.Compare) and len(n.ops) == 1 and type(n.ops[0]) in CMP:
            out.append(("cmp", i, ln))
        elif isinstance(n, ast.BinOp) and type(n.op) in BIN:
            if isinstance(n.left, (ast.Constant,)) and isinstance(n.left.value, str):
                continue
            out.append(("bin", i, ln))
        elif isinstance(n, ast.Constant) and isinstance(n.value, int) and not isinstance(n.value, bool) and 0 <= n.value <= 4:
            out.append(("const+1", i, ln))
            if n.value >= 1:
                out.append(("const-1", i, ln))
        elif isinstance(n, ast.BoolOp):
            out.append(("boolop", i, ln))
        elif isinstance(n, ast.UnaryOp) and isinstance(n.op, ast.Not):
            out.append(("not-drop", i, ln))
        elif isinstance(n, ast.If) and len(n.body) == 1 and isinstance(n.body[0], ast.Raise) and not n.orelse:
            out.append(("guard-drop", i, ln))
        elif isinstance(n, ast.If):
            out.append(("cond-negate", i, ln))
        if isinstance(n, ast.Call):
            f = n.func
            nm = f.attr if isinstance(f, ast.Attribute) else (f.id if isinstance(f, ast.Name) else None)
            if nm in NAME_SWAP:
                out.append(("call-swap", i, ln))
            if len(n.args) >= 2 and all(isinstance(a, (ast.Name, ast.Attribute, ast.Subscript)) for a in n.args[:2]) and ast.unparse(n.args[0]) != ast.unparse(n.args[1]) and nm not in ("isinstance", "getattr", "hasattr", "zip", "check_larger_than", "check_in_interval"):
                out.append(("arg-swap", i, ln))
        if isinstance(n, ast.Attribute) and n.attr in ATTR_SWAP and isinstance(n.ctx, ast.Load):
            out.append(("attr-swap", i, ln))
        if isinstance(n, ast.Expr) and isinstance(n.value, ast.Call) and isinstance(n.value.func, ast.Attribute) and n.value.func.attr in ("fit", "append", "extend", "check_is_fitted"):
            out.append(("stmt-del", i, ln))
        if isinstance(n, ast.AugAssign):
            out.append(("stmt-del", i, ln))
        if isinstance(n, ast.Return) and isinstance(n.value, ast.Tuple) and len(n.value.elts) >= 2:
            out.append(("return-swap", i, ln))
    return out


def mutate(src, kind, index):
    tree = ast.parse(src)
    nodes = list(ast.walk(tree))
    n = nodes[index]
    before = ast.unparse(n)[:80]
    if kind == "cmp":
        n.ops = [CMP[type(n.ops[0])]()]
    elif kind == "bin":
        n.op = BIN[type(n.op)]()
    elif kind == "const+1":
        n.value = n.value + 1
    elif kind == "const-1":
        n.value = n.value - 1
    elif kind == "boolop":
        n.op = ast.Or() if isinstance(n.op, ast.And) else ast.And()
    elif kind == "not-drop":
        # replace `not X` by X in the parent: rewrite in place by turning the node into its operand's copy
        op = n.operand
        n.__class__ = op.__class__
        n.__dict__.clear()
        n.__dict__.update(copy.deepcopy(op).__dict__)
    elif kind == "guard-drop":
        n.test = ast.Constant(value=False)
    elif kind == "cond-negate":
        n.test = ast.UnaryOp(op=ast.Not(), operand=n.test)
    elif kind == "call-swap":
        f = n.func
        if isinstance(f, ast.Attribute):
            f.attr = NAME_SWAP[f.attr]
        else:
            f.id = NAME_SWAP[f.id]
    elif kind == "arg-swap":
        n.args[0], n.args[1] = n.args[1], n.args[0]
    elif kind == "attr-swap":
        n.attr = ATTR_SWAP[n.attr]
    elif kind == "stmt-del":
        n.__class__ = ast.Pass
        for k_ in list(n.__dict__):
            if k_ not in ("lineno", "col_offset", "end_lineno", "end_col_offset"):
                del n.__dict__[k_]
    elif kind == "return-swap":
        n.value.elts[0], n.value.elts[1] = n.value.elts[1], n.value.elts[0]
    ast.fix_missing_locations(tree)
    after = ast.unparse(nodes[index])[:80] if kind != "not-drop" else ast.unparse(n)[:80]
    out = ast.unparse(tree) + "\n"
    compile(out, "<mut>", "exec")
    return out, before, after


def run_mutant(repo, rel, kind, index, line, with_tests):
    tmp = tempfile.mkdtemp(prefix="skverif_mu_")
    try:
        copy_pkg(repo, tmp)
        path = os.path.join(tmp, rel)
        try:
            new, before, after = mutate(open(path).read(), kind, index)
        except Exception as e:  # noqa: BLE001
            return {"file": rel, "line": line, "kind": kind, "status": "invalid", "why": repr(e)[:100]}
        open(path, "w").write(new)
        fired, undec = [], []
        first = ""
        for p in ALL:
            env = dict(os.environ, SKVERIF_EVIDENCE_DIR=os.path.join(tmp, "_ev"), PYTHONPATH=VERIF)
            c = subprocess.run([sys.executable, "-m", "skverif", "check", p, "--tier", "quick", "--repo", tmp], capture_output=True, text=True, env=env, cwd=VERIF, timeout=900)
            if c.returncode == 1:
                fired.append(p)
                if not first:
                    first = next((l for l in c.stdout.splitlines() if "VIOLATION:" in l), "")[:200]
            elif c.returncode != 0:
                undec.append(p)
        status = "killed" if fired else ("undecided" if undec else "survived")
        return {"file": rel, "line": line, "kind": kind, "before": before, "after": after, "status": status, "fired": fired, "undecided": undec, "first": first}
    finally:
        shutil.rmtree(tmp, ignore_errors=True)


def main():
    ap = argparse.ArgumentParser()
    ap.add_argument("--repo", default="/repo")
    ap.add_argument("--files", nargs="*", default=DEFAULT_FILES)
    ap.add_argument("--jobs", type=int, default=16)
    ap.add_argument("--out", default="/tmp/scratch/mutants.jsonl")
    ap.add_argument("--limit", type=int, default=0)
    ap.add_argument("--stride", type=int, default=1, help="take every k-th mutation site")
    ap.add_argument("--kinds", nargs="*", default=None, help="only these mutation kinds")
    a = ap.parse_args()
    jobs = []
    for dp, dn, fn in os.walk(os.path.join(a.repo, "skchange")):
        dn[:] = [d for d in dn if d not in ("tests", "__pycache__")]
        for f in sorted(fn):
            rel = os.path.relpath(os.path.join(dp, f), a.repo)
            if not f.endswith(".py") or f == "__init__.py" or not any(s in rel for s in a.files):
                continue
            tree = ast.parse(open(os.path.join(a.repo, rel)).read())
            for kind, idx, ln in sites(tree):
                if a.kinds is None or kind in a.kinds:
                    jobs.append((rel, kind, idx, ln))
    jobs = jobs[:: a.stride]
    if a.limit:
        jobs = jobs[: a.limit]
    print(f"[mutate] {len(jobs)} mutants", flush=True)
    t0 = time.time()
    counts = {}
    os.makedirs(os.path.dirname(a.out), exist_ok=True)
    with open(a.out, "w") as fo, ThreadPoolExecutor(max_workers=a.jobs) as pool:
        for k, r in enumerate(pool.map(lambda j: run_mutant(a.repo, j[0], j[1], j[2], j[3], False), jobs)):
            counts[r["status"]] = counts.get(r["status"], 0) + 1
            fo.write(json.dumps(r) + "\n")
            fo.flush()
            if (k + 1) % 100 == 0:
                print(f"  {k + 1}/{len(jobs)} {counts} {time.time() - t0:.0f}s", flush=True)
    print(f"[mutate] done {counts} wall={time.time() - t0:.0f}s -> {a.out}")


if __name__ == "__main__":
    main()
