#!/venv/bin/python
"""Run every property check against the behaviour-preserving refactorings kept in /verif/twins/<id>/patch.diff.

The refactorings were written by independent agents that saw neither /verif nor the checks; each was verified by its
author to pass the unedited test-suite and to leave the outputs of the touched functions bit-identical on a battery of
inputs (including exception types).  Each patch is applied to a scratch copy of /repo's package (never to /repo); every
one of the 18 checks must still exit 0.  usage: run_twins.py [--jobs N] [ID ...]
"""
import argparse
import glob
import os
import shutil
import subprocess
import sys
import tempfile
import time
from concurrent.futures import ThreadPoolExecutor

VERIF = os.path.dirname(os.path.dirname(os.path.abspath(__file__)))
sys.path.insert(0, VERIF)
from skverif.selftest import copy_pkg  # noqa: E402

DIR = ["twins"]
ALL = [f"C{i:02d}" for i in range(1, 19)]


def run(tid, repo):
    tmp = tempfile.mkdtemp(prefix="skverif_tw_")
    try:
        copy_pkg(repo, tmp)
        r = subprocess.run(["patch", "-p1", "-s", "-d", tmp, "-i", os.path.join(VERIF, DIR[0], tid, "patch.diff")], capture_output=True, text=True)
        if r.returncode != 0:
            return tid, {"_apply": (3, [r.stdout[-200:] + r.stderr[-200:]])}
        res = {}
        for p in ALL:
            env = dict(os.environ, SKVERIF_EVIDENCE_DIR=os.path.join(tmp, "_ev"), PYTHONPATH=VERIF)
            c = subprocess.run([sys.executable, "-m", "skverif", "check", p, "--tier", "quick", "--repo", tmp], capture_output=True, text=True, env=env, cwd=VERIF, timeout=900)
            if c.returncode != 0:
                res[p] = (c.returncode, [l for l in (c.stdout + c.stderr).splitlines() if "VIOLATION:" in l or "ANALYSIS-ERROR" in l][:2])
        return tid, res
    finally:
        shutil.rmtree(tmp, ignore_errors=True)


def main():
    ap = argparse.ArgumentParser()
    ap.add_argument("ids", nargs="*")
    ap.add_argument("--jobs", type=int, default=8)
    ap.add_argument("--repo", default="/repo")
    ap.add_argument("--dir", default="twins", help="sub-directory of /verif holding <id>/patch.diff (twins or twins_limits)")
    a = ap.parse_args()
    DIR[0] = a.dir
    ids = a.ids or sorted(os.path.basename(os.path.dirname(p)) for p in glob.glob(os.path.join(VERIF, DIR[0], "*", "patch.diff")))
    t0 = time.time()
    bad = 0
    with ThreadPoolExecutor(max_workers=a.jobs) as pool:
        for tid, res in pool.map(lambda t: run(t, a.repo), ids):
            if res:
                bad += 1
                print(f"ALARM {tid}: { {p: rc for p, (rc, _) in res.items()} }")
                for p, (rc, lines) in res.items():
                    for l in lines:
                        print("    ", p, l[:240])
    print(f"[twins] refactorings={len(ids)} checks={len(ALL)} alarms={bad} wall={time.time() - t0:.0f}s")
    return 2 if bad else 0


if __name__ == "__main__":
    sys.exit(main())
