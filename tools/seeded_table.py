#!/venv/bin/python
"""Print the markdown table 'which check catches which seeded change' from /verif/seeded/*/meta.json."""
import glob
import json
import re

print("| seed | property | change (one line) | reported by (first line of the check's report) | caught at first try | strengthening done |")
print("|---|---|---|---|---|---|")
for d in sorted(glob.glob("/verif/seeded/*/meta.json")):
    m = json.load(open(d))
    what = m["what_it_needs_to_manifest"].split("\n")[0]
    what = re.sub(r"^-?\s*Change:\s*", "", what).replace("|", "/")
    if len(what) > 200:
        what = what[:197] + "..."
    rep = []
    for p, dd in m["detection"].items():
        for l in dd["report"][:1]:
            parts = [x for x in l.split("  ") if x.strip()]
            rep.append(f"{parts[1].strip() if len(parts) > 1 else l[:60]} @ {parts[0].strip().split('/')[-1] if parts else ''}")
    st = (m.get("strengthening") or "").replace("|", "/")
    if len(st) > 260:
        st = st[:257] + "..."
    print(f"| {m['id']} | {m['breaks_property']} | {what} | {'; '.join(rep).replace('|', '/')} | {'yes' if m['detected_by_checks_at_first_try'] else 'no'} | {st or '-'} |")
